import os, sys
sys.path.insert(0, os.path.dirname(os.path.abspath(__file__)))
from common import *
PROPERTY = 'C19'
RX = ['_ZNSt7__cxx1111basic_regexIcNS_12regex_traitsIcEEE10_M_compileEPKcS5_NSt15regex_constants18syntax_option_typeE',
      '_ZNSt8__detail17__regex_algo_implIPKcSaINSt7__cxx119sub_matchIS2_EEEcNS3_12regex_traitsIcEEEEbT_S9_RNS3_13match_resultsIS9_T0_EERKNS3_11basic_regexIT1_T2_EENSt15regex_constants15match_flag_typeENS_20_RegexExecutorPolicyEb']
def h(L):
    return dict(src='c19_names.cc', defines=['LEN=%d' % L, 'OTEL_INTERNAL_LOG_LEVEL=0'], overrides=RX + [SP_RELEASE],
                models=['libc.c', 'cxxrt.c', 'stdstring.c', 'single_threaded.c', 'regex_model.c', 'regex_std.c', SP_LEAK_MODEL], gen_models=gen_regex_tables)
US = {'re_match': 10, 'strlen': 12, 'same': 40, 'vs_copy': 40}
HARNESSES = {}; QUERIES = []
for L in range(0, 7):
    HARNESSES['c19_l%d' % L] = h(L)
    QUERIES.append(dict(name='validate_name_unit_len%d' % L, harness='c19_l%d' % L, entry='h_validate', unwind=max(L + 4, 6), unwindset=US, rec_unwind=3, timeout=900,
                        tier='quick' if L in (0, 1, 3) else 'thorough',
                        shape='every byte string of length %d (all byte values incl. NUL, no terminator, exactly sized buffer) as instrument name and as unit' % L))
HARNESSES['c19_views'] = dict(src='c19_views.cc', defines=['OTEL_INTERNAL_LOG_LEVEL=0'], overrides=RX + [SP_RELEASE],
                              models=['libc.c', 'cxxrt.c', 'stdstring.c', 'single_threaded.c', 'hash_bytes.c', 'regex_model.c', 'regex_std.c', SP_LEAK_MODEL], gen_models=gen_regex_tables, model_defines=['VERIF_STR_HEAP_MAX=31'])
for e, sh in (('h_match_meter', 'MeterSelector(name, version, schema) vs InstrumentationScope(name, version, schema): each of the 6 strings symbolically "", "a" or "b" (729 combinations in one query)'),
              ('h_match_instrument', 'InstrumentSelector(type, "*", unit) vs InstrumentDescriptor: 3 instrument types, unit/name symbolically "", "a" or "b"')):
    QUERIES.append(dict(name=e[2:], harness='c19_views', entry=e, unwind=6, unwindset={'strlen': 4, 'memcmp': 4, 'bcmp': 4, 'verif_memcpy': 20, 'verif_memmove': 20, 'verif_memset': 140, 'vs_copy': 20, 'vs_move': 20}, rec_unwind=3, timeout=900,
                        shape=sh))
def extra_engine(args, work):
    return regex_engine(['instrument_name', 'instrument_unit'], args, work)
BOUNDS = ['view selectors: ViewRegistry::MatchMeter / MatchInstrument with strings over {"", "a", "b"}, 3 instrument types', 'name/unit views of every length 0..6 through the real call sites (quick: 0, 1, 3)', 'pattern literals vs documented grammar: every byte string <= 258 (name) / <= 70 (unit) bytes']
OUTSIDE = ['views longer than 6 bytes through the call site (the 255/63 length limits are decided on the literals by the regex queries)',
           'pattern (regex) instrument-name selectors other than the wildcard; FindViews over several registered views, the shaping of the stream by the matched view; scope configurator, provider look-up, Meter registration: std::unordered_map / std::function / std::regex based - not encoded (heavy-STL gate)']
TRUSTED = ['std::regex_match implements ECMAScript full match for the literal subset', 'documented grammar: name = ALPHA 0*254(ALPHA/DIGIT/_ . - /), unit = 0*63 (%x01-7F), from the comments next to the literals']
ASSUMPTIONS = ['std::regex compile/match replaced by tables generated from the real literals (models/regex_std.c)']
