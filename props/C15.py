import os, sys
sys.path.insert(0, os.path.dirname(os.path.abspath(__file__)))
from common import *
PROPERTY = 'C15'
def h(klen=1, vlen=1, length=3, nstart=2, extra=()):
    return dict(src='c15_baggage.cc', defines=['KLEN=%d' % klen, 'VLEN=%d' % vlen, 'LEN=%d' % length, 'NSTART=%d' % nstart] + list(extra), overrides=[SP_RELEASE],
                models=['libc.c', 'cxxrt.c', 'stdstring.c', 'single_threaded.c', SP_LEAK_MODEL], model_defines=['VERIF_NEW_ARRAY_MAX=64', 'VERIF_STR_NO_HEAP'], ir2c_flags=['--new-array-max', '136', '--rpo'])
def us(n):   # n = longest string any path can build (+2): symbolic-length copies are unrolled to exactly this bound
    return {'bcmp': n, 'strlen': n, 'memcmp': n, 'memchr': n + 2, 'verif_memset': 140, 'verif_memcpy': n, 'verif_memmove': n, 'vs_copy': n, 'vs_move': n}
US = us(8)
HARNESSES = {}; QUERIES = []
# object-level Set -> ToHeader -> FromHeader round trips: measured (rounds 1 and 2) not to finish symbolic execution in 400 s even for a 1-byte key - parked, not registered
for (kl, vl, tier) in ():
    tag = 'c15_rt_%d_%d' % (kl, vl)
    HARNESSES[tag] = h(kl, vl)
    QUERIES.append(dict(name='roundtrip_k%d_v%d' % (kl, vl), harness=tag, entry='h_roundtrip', unwind=3 * (kl + vl) + 4, unwindset=us(3 * (kl + vl) + 3), rec_unwind=3, tier=tier, timeout=1200, mem_gb=24,
                        shape='Set(key,value) on the empty baggage -> ToHeader -> FromHeader; key of exactly %d and value of exactly %d characters over a 16-letter alphabet (unreserved, space, = , ; %% + " / !)' % (kl, vl)))
for ns in (1, 2):
    tag = 'c15_n%d' % ns
    HARNESSES[tag] = h(nstart=ns)
    tier = 'quick' if ns == 2 else 'thorough'
    for e, sh in (('h_set', 'Set(key,value) with 1-byte key/value over an 8-letter alphabet (printable, separators, 0x1f, 0x7f; present and absent keys)'), ('h_delete', 'Delete(key) with a 1-byte key over the alphabet'),
                  ):
        QUERIES.append(dict(name='%s_n%d' % (e[2:], ns), harness=tag, entry=e, unwind=4 * ns + 6, unwindset=US, rec_unwind=3, tier='thorough' if e == 'h_list_roundtrip' and ns != 1 else ('quick' if e == 'h_list_roundtrip' else tier), timeout=1200, mem_gb=24,
                            shape='%d distinct printable 1-byte entries; %s' % (ns, sh)))
for L in range(0, 3):  # noqa  (length 3 and above: no verdict in 400 s)
    HARNESSES['c15_any%d' % L] = h(length=L)
    QUERIES.append(dict(name='from_any_header_len%d' % L, harness='c15_any%d' % L, entry='h_from_any_header', unwind=L + 2, unwindset=us(L + 2), rec_unwind=3, tier='quick' if L in (0,) else 'thorough', timeout=1200, mem_gb=24,
                        shape='every header byte string of length %d (all 256 byte values, exactly sized buffer)' % L))

# ---- leaf kernels (round 2): UrlEncode / UrlDecode directly, exact lengths
def hu(L, extra=()):
    return dict(src='c15_url.cc', defines=['LEN=%d' % L] + list(extra), models=['libc.c', 'cxxrt.c', 'stdstring.c', 'single_threaded.c'], model_defines=['VERIF_NEW_ARRAY_MAX=64', 'VERIF_STR_NO_HEAP'], ir2c_flags=['--new-array-max', '136'])
for L in range(0, 5):
    HARNESSES['c15_url%d' % L] = hu(L)
    QUERIES.append(dict(name='url_decode_any_len%d' % L, harness='c15_url%d' % L, entry='h_url_decode_any', unwind=L + 2, unwindset=us(3 * L + 3), rec_unwind=3, tier='quick' if L in (0, 1, 3) else 'thorough', timeout=900,
                        shape='UrlDecode on every byte string of length %d (all 256 byte values, exactly sized buffer) vs an independent decoder' % L))
    if L <= 3:
        QUERIES.append(dict(name='url_roundtrip_len%d' % L, harness='c15_url%d' % L, entry='h_url_roundtrip', unwind=3 * L + 2, unwindset=us(3 * L + 3), rec_unwind=3, tier='quick' if L in (1, 2) else 'thorough', timeout=900,
                            shape='UrlDecode(UrlEncode(s)) == s and the encoder alphabet for every printable s of length %d' % L))

# ---- composite propagator / baggage extract with nothing valid (round 2)
def hc(n, junk=0):
    return dict(src='c15_composite.cc', defines=['NPROP=%d' % n, 'JUNK=%d' % junk], overrides=[SP_RELEASE], models=['libc.c', 'cxxrt.c', 'stdstring.c', 'single_threaded.c', SP_LEAK_MODEL],
                model_defines=['VERIF_NEW_ARRAY_MAX=64', 'VERIF_STR_NO_HEAP'], ir2c_flags=['--new-array-max', '136'])
for n in (2, 3):
    HARNESSES['c15_cp%d' % n] = hc(n)
    QUERIES.append(dict(name='composite_n%d' % n, harness='c15_cp%d' % n, entry='h_composite', unwind=8, unwindset=us(8), rec_unwind=3, tier='quick' if n == 2 else 'thorough', timeout=900,
                        shape='CompositePropagator over %d mock propagators: inject order, extract threading, empty composite' % n))
for j, txt in enumerate(('empty header', 'a member without =', 'a member with empty key', 'only a separator')):
    HARNESSES['c15_bx%d' % j] = hc(2, j)
    QUERIES.append(dict(name='baggage_extract_nothing_valid_%d' % j, harness='c15_bx%d' % j, entry='h_baggage_extract_nothing_valid', unwind=8, unwindset=us(8), rec_unwind=3, tier='quick' if j in (0, 1) else 'thorough', timeout=900,
                        shape='BaggagePropagator::Extract, context already holding a value under the baggage key, header = %s' % txt))
BOUNDS = ['UrlDecode: every byte string of each length 0..4 (quick: 0, 1, 3); UrlEncode->UrlDecode round trip: every printable string of each length 0..3 (quick: 1, 2)',
          'Baggage::Set / Delete on 1..2 distinct printable 1-byte entries with 1-byte key/value over an 8-letter alphabet', 'Baggage::FromHeader on every byte string of length 0..2 (quick: 0), exactly sized buffers',
          'CompositePropagator over 2..3 mock propagators; BaggagePropagator::Extract on four concrete headers that hold no valid member']
OUTSIDE = ['the object-level header round trip Set -> ToHeader -> FromHeader (per-character std::string building inside the GetAllEntries callback: symbolic execution does not finish in 400 s even for a 1-byte key; the encoder/decoder pair itself is decided at leaf level)',
           'FromHeader on arbitrary headers of 3 or more bytes; the ;metadata pass-through; the 180-member, 4096-byte and 8192-byte limits', 'BaggagePropagator::Inject and Extract of a valid header into the context', 'GlobalTextMapPropagator singleton',
           'keys/values longer than the stated lengths']
TRUSTED = ['C-locale isalnum/isdigit/toupper tables (models/libc.c)']
ASSUMPTIONS = ['std::shared_ptr / nostd::shared_ptr release does not run disposers (Baggage objects are leaked; values, not lifetimes, are the subject)', 'operator new[] allocates a fixed 64 bytes (larger requests are reported)',
               'std::string stays within the 15-byte SSO buffer in every query (a heap request is reported as a bound violation, never ignored)']
