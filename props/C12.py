import os, sys
sys.path.insert(0, os.path.dirname(os.path.abspath(__file__)))
from common import *
PROPERTY = 'C12'
import struct, math
def _d(bits): return struct.unpack('<d', struct.pack('<Q', bits))[0]
def _b(x): return struct.unpack('<Q', struct.pack('<d', x))[0]
def concretise_ratio(vec):
    """abstract counterexample (ratio r, abstract product p = 'fl(UINT32_MAX*r)') -> real ratios whose real product is p or next to it"""
    alts = []
    ps = [_d(b) for t, b in vec if t == 'mf64']
    for p in ps:
        if not (0.0 < p < 4294967295.0): continue
        r = p / 4294967295.0
        cands = [r]
        lo = hi = r
        for _ in range(6):
            lo = math.nextafter(lo, 0.0); hi = math.nextafter(hi, 1.0); cands += [lo, hi]
        for rr in cands:
            if 0.0 < rr < 1.0:
                # keep the harness' own values, replace the FIRST harness double by rr (models' values stay; natively they are skipped)
                out = []; done = False
                for t, b in vec:
                    if t == 'f64' and not done: out.append((t, _b(rr))); done = True
                    else: out.append((t, b))
                alts.append(out)
    return alts
TOSTR = '_ZNSt7__cxx119to_stringEd'
base = dict(src='c12_samplers.cc', overrides=TS_OVERRIDES + [TOSTR], models=TS_MODELS + ['libc.c', 'cxxrt.c', 'stdstring.c', 'c12_env.c'],
            gen_models=gen_regex_tables)
HARNESSES = {
  'c12': dict(base),
  'c12_abs': dict(base, ir2c_flags=['--fp-hooks'], models=base['models'] + ['c12_fpmul_abs.c']),
  'c12_uf': dict(base, overrides=base['overrides'] + ['_ZN12_GLOBAL__N_118CalculateThresholdEd'], models=base['models'] + ['c12_uf.c']),
}
US = {'re_match': 10, '_M_dispose': 3, 'vs_copy': 48, 'vs_move': 48, 'strlen': 48}
QUERIES = [
  dict(name='threshold_endpoints', harness='c12', entry='h_threshold_endpoints', unwind=3, unwindset=US, timeout=600, shape='every non-NaN double'),
  dict(name='threshold_monotone_abs', harness='c12_abs', entry='h_threshold_monotone', unwind=3, unwindset=US, timeout=900, abstracted=True,
       solvers=['cadical', 'minisat'], shape='every pair of non-NaN doubles r1<=r2; fl(UINT32_MAX*r) abstracted by the IEEE monotonicity lemma'),
  dict(name='threshold_formula_abs', harness='c12_abs', entry='h_threshold_formula', unwind=3, unwindset=US, timeout=900, abstracted=True, solvers=['cadical', 'minisat'],
       concretise=concretise_ratio,
       shape='every ratio in (0,1): result equals the documented split formula on the same product (multiplication abstracted consistently on both sides)'),
  dict(name='ratio_decision', harness='c12_uf', entry='h_ratio_decision', unwind=18, unwindset=US, timeout=900, shape='every ratio, trace id, parent context; CalculateThreshold as uninterpreted function + proven end points'),
  dict(name='parent_based', harness='c12', entry='h_parent_based', unwind=18, unwindset=US, timeout=600, shape='every parent context/flags, delegate decision'),
  dict(name='always_on_off', harness='c12', entry='h_always', unwind=18, unwindset=US, timeout=600, shape='every parent context'),
]
BOUNDS = ['all non-NaN doubles (64-bit IEEE bit-precise)', 'one ShouldSample call per query']
OUTSIDE = ['NaN ratios (outside the documented domain)', 'description strings (std::to_string stubbed to empty)']
TRUSTED = ['IEEE-754 lemma: correctly rounded multiplication by a positive finite constant is monotone, sign preserving, and x<=1 => fl(c*x)<=c (models/c12_fpmul_abs.c)']
ASSUMPTIONS = ['modf(x,&i): i=trunc(x), returns x-i; ldexp(x,32) = x*2^32 (exact absent overflow)']
