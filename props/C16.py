import os, sys
sys.path.insert(0, os.path.dirname(os.path.abspath(__file__)))
from common import *
PROPERTY = 'C16'
def h(length):
    return dict(src='c16_b3_jaeger.cc', defines=['LEN=%d' % length], overrides=TS_OVERRIDES + [SP_RELEASE], models=TS_MODELS + ['libc.c', 'cxxrt.c', 'stdstring.c', SP_LEAK_MODEL],
                gen_models=gen_regex_tables)
US = {'IsValidHex': 12, 're_match': 10, '_M_dispose': 3, 'bcmp': 24, 'strlen': 24, 'ExtractImpl': 56, 'Carrier3Set': 56}
HARNESSES = {'c16': h(8)}
QUERIES = [
  dict(name='b3_single_roundtrip', harness='c16', entry='h_b3_single_roundtrip', unwind=18, unwindset=US, timeout=900, shape='all ids, all 256 flag bytes'),
  dict(name='b3_multi_roundtrip', harness='c16', entry='h_b3_multi_roundtrip', unwind=18, unwindset=US, timeout=900, shape='all ids, all 256 flag bytes'),
  dict(name='jaeger_roundtrip', harness='c16', entry='h_jaeger_roundtrip', unwind=18, unwindset=US, timeout=900, shape='all ids, all 256 flag bytes'),
  dict(name='b3_variants', harness='c16', entry='h_b3_variants', unwind=18, unwindset=US, timeout=900, shape='64-bit ids, flag byte symbolic, flag present/absent, multi headers present'),
]
for L in (0, 1, 3, 8, 12):
    HARNESSES['c16_%d' % L] = h(L)
    QUERIES.append(dict(name='b3_single_total_len%d' % L, harness='c16_%d' % L, entry='h_b3_single_total', unwind=max(L, 16) + 3, unwindset=US, timeout=900,
                        tier='quick' if L in (0, 3) else 'thorough', shape='every b3 header byte string of length %d' % L,
                        optional_reach=['b3 single: installed context has non-zero ids and is remote'] if L < 3 else []))
    QUERIES.append(dict(name='jaeger_total_len%d' % L, harness='c16_%d' % L, entry='h_jaeger_total', unwind=max(L, 16) + 3, unwindset=US, timeout=900,
                        tier='quick' if L in (0, 3) else 'thorough', shape='every uber-trace-id byte string of length %d' % L,
                        optional_reach=['jaeger: installed context has non-zero ids and is remote'] if L < 7 else []))
BOUNDS = ['inject side: all ids/flags (one span context per query)', 'extract totality: header lengths listed per query']
OUTSIDE = ['header byte strings longer than the listed lengths']
ASSUMPTIONS = ['operator new never fails']
