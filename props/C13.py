import os, sys
sys.path.insert(0, os.path.dirname(os.path.abspath(__file__)))
from common import *
PROPERTY = 'C13'
MODES = {0: 'no active span', 1: 'active (non-recording) span object with symbolic context', 2: 'SpanContext alternative stored under the span key'}
def h(mode, disabled=False):
    return dict(src='c13_logs.cc', defines=['SPAN_MODE=%d' % mode, 'OTEL_INTERNAL_LOG_LEVEL=0'] + (['DISABLED=1'] if disabled else []), overrides=[SP_RELEASE],
                models=['libc.c', 'cxxrt.c', 'stdstring.c', 'single_threaded.c', 'pthread_clock.c', 'sched.c', SP_LEAK_MODEL, 'rbtree.c', 'hashtable_policy.c', 'hash_bytes.c'],
                ir2c_flags=['--new-array-max', '136'], model_defines=['VERIF_NEW_ARRAY_MAX=136'])
US = {'bcmp': 24, 'strlen': 24, 'memcmp': 24, 'verif_mem': 70, '_Hash_bytes': 24}
HARNESSES = {}; QUERIES = []
for mode in MODES:
    HARNESSES['c13_s%d' % mode] = h(mode)
    QUERIES.append(dict(name='create_emit_span%d' % mode, harness='c13_s%d' % mode, entry='h_create_emit', unwind=18, unwindset=US, rec_unwind=3, timeout=1200, tier='quick',
                        shape='%s; enabled logger; every span id/flags byte; explicit identity given or not (every value); symbolic severity, timestamp, int64 body, event id' % MODES[mode]))
HARNESSES['c13_disabled'] = h(1, True)
QUERIES.append(dict(name='disabled_logger', harness='c13_disabled', entry='h_create_emit', unwind=18, unwindset=US, rec_unwind=3, timeout=600, tier='quick', shape='logger disabled by its scope configuration, a span active: CreateLogRecord + EmitLogRecord make no processor call'))
BOUNDS = ['one CreateLogRecord + EmitLogRecord (+ one null Emit) per query; three active-span situations as separate queries', 'body is an int64 alternative; event name fixed']
OUTSIDE = ['attributes (std::unordered_map<std::string, AttributeValue>) and last-write-wins per key', 'ownership of string / span bodies and attribute values after Emit (ReadWriteLogRecord stores non-owning AttributeValue)',
           'MultiRecordable / MultiLogRecordProcessor fan-out, batch and simple log processors', 'LoggerContext / Logger constructors and LoggerProvider (state is placed directly; resource and scope are opaque storage)',
           'variadic EmitLogRecord(args...) template dispatch']
ASSUMPTIONS = ['std::shared_ptr release does not run disposers (values, not lifetimes, are the subject)', 'pthread mutex = owner flag; clocks = arbitrary non-decreasing instants', 'single executing thread (thread_local runtime context stack as a plain global)']
