import os, sys
sys.path.insert(0, os.path.dirname(os.path.abspath(__file__)))
from common import *
PROPERTY = 'C10'
def h(n):
    return dict(defines=['NSTEPS=%d' % n], src='c10_context.cc', overrides=TS_OVERRIDES + [SP_RELEASE], models=TS_MODELS + ['libc.c', 'cxxrt.c', 'stdstring.c', 'single_threaded.c', SP_LEAK_MODEL],
                         gen_models=gen_regex_tables, ir2c_flags=['--new-array-max', '208'], model_defines=['VERIF_NEW_ARRAY_MAX=208'])
HARNESSES = {'c10': h(3), 'c10_s2': h(2)}
US = {'re_match': 10, 'bcmp': 6, 'memcmp': 6, 'strlen': 6, 'verif_mem': 212}
QUERIES = [
  dict(name='context_values_persistent', harness='c10', entry='h_context_values', unwind=6, unwindset=US, rec_unwind=3, timeout=1200,
       shape='3 SetValue calls, each on a symbolically chosen earlier context, keys from {a, b, ab}, symbolic int64 values; every context re-queried afterwards with a symbolic key'),
] + [dict(name='attach_detach_stack_%dops' % n, harness=t, entry='h_attach_detach', unwind=7, unwindset=US, rec_unwind=3, timeout=1800, mem_gb=28, tier='quick' if n in (2, 3) else 'thorough',
          shape='%d symbolic Attach/Detach operations over 3 contexts: out-of-order detach, a context attached twice, tokens detached twice (3 ops: depth <= 3 crosses the first stack growth 0->2->6)' % n)
     for (n, t) in ((2, 'c10_s2'),)]
QUERIES.append(dict(name='attach_script_depth4', harness='c10_s2', entry='h_attach_script', optional_reach=['deep stack: everything unwound leaves the empty context current'], unwind=7, unwindset=US, rec_unwind=3, timeout=1800, mem_gb=28, tier='quick',
       shape='attach a, b, a, c (depth 4, both stack growth steps, one context attached twice), then one Detach on a symbolically chosen token (top, out of order, the context attached twice)'))
BOUNDS = ['3 derived contexts, keys over {a, b, ab}', '2 symbolic stack operations (Attach/Detach, depth <= 2, first growth 0->2)']
OUTSIDE = ['3 or more stack operations (the 3-operation query, which crosses the second growth 2->6, ends with an unwinding-assertion failure in the Detach pop loop at bound 7 that was not triaged before the end of the build - neither claimed nor reported)', 'SetValues (map overload)', 'trace::Scope / WithActiveSpan on top of the stack', 'visibility across threads (thread_local storage duration is a language guarantee; the stack has no other shared state)', 'Token destruction (its destructor detaches)']
ASSUMPTIONS = ['thread_local stack treated as a plain global (single thread)', 'shared_ptr release does not run disposers (values, not lifetimes)']
