import os, sys
sys.path.insert(0, os.path.dirname(os.path.abspath(__file__)))
from common import *
PROPERTY = 'C04'
US = {'re_match': 10, 'bcmp': 24, 'strlen': 24, 'memcmp': 24, 'verif_mem': 70}
HARNESSES = {'c04_span': dict(src='c05_tracer.cc', defines=['PARENT_MODE=0', 'OTEL_INTERNAL_LOG_LEVEL=0'], overrides=TS_OVERRIDES,
             models=TS_MODELS + ['libc.c', 'cxxrt.c', 'stdstring.c', 'single_threaded.c', 'pthread_clock.c'], gen_models=gen_regex_tables, ir2c_flags=['--new-array-max', '64'], model_defines=['VERIF_NEW_ARRAY_MAX=64'])}
QUERIES = [dict(name='span_ops_before_after_end', harness='c04_span', entry='h_span_ops', unwind=18, unwindset=US, rec_unwind=3, timeout=1500,
                shape='4 symbolic operations from {SetAttribute, AddEvent, SetStatus, UpdateName, End} on a recording span, then destruction'),
           dict(name='dropped_span_inert', harness='c04_span', entry='h_span_ops_dropped', unwind=18, unwindset=US, rec_unwind=3, timeout=1500,
                shape='3 symbolic operations on a span the sampler dropped, then destruction')]
BOUNDS = ['4 operations per span, one processor (mock) and mock recordable']
OUTSIDE = ['SpanData / attribute map contents and ownership of caller buffers (std::unordered_map of variants: not encoded yet)', 'MultiRecordable fan-out', 'several threads on one span (mutex discipline only through the self-deadlock model)']
ASSUMPTIONS = ['pthread mutex = owner flag', 'clocks arbitrary non-decreasing']
