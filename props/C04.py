import os, sys
sys.path.insert(0, os.path.dirname(os.path.abspath(__file__)))
from common import *
PROPERTY = 'C04'
US = {'re_match': 10, 'bcmp': 24, 'strlen': 24, 'memcmp': 24, 'verif_mem': 70}
def h(n):
    return dict(src='c05_tracer.cc', defines=['PARENT_MODE=0', 'NOPS=%d' % n, 'NO_DTOR_CHECK', 'OTEL_INTERNAL_LOG_LEVEL=0'], overrides=TS_OVERRIDES + [SP_RELEASE],
             models=TS_MODELS + ['libc.c', 'cxxrt.c', 'stdstring.c', 'single_threaded.c', 'pthread_clock.c', SP_LEAK_MODEL], gen_models=gen_regex_tables, ir2c_flags=['--new-array-max', '64'], model_defines=['VERIF_NEW_ARRAY_MAX=64'])
HARNESSES = {'c04_span': h(2), 'c04_span3': h(3), 'c04_span4': h(4)}
QUERIES = [dict(name='span_ops_before_after_end_%dops' % n, harness=t, entry='h_span_ops', unwind=18, unwindset=US, rec_unwind=3, timeout=1500 if n == 2 else 3000, tier='quick' if n == 2 else 'thorough', mem_gb=24,
                shape='%d symbolic operations from {SetAttribute, AddEvent, SetStatus, UpdateName, End} on a recording span, then a final End' % n) for (n, t) in ((2, 'c04_span'), (3, 'c04_span3'), (4, 'c04_span4'))] + [
           dict(name='dropped_span_inert', harness='c04_span', entry='h_span_ops_dropped', unwind=18, unwindset=US, rec_unwind=3, timeout=1500,
                shape='3 symbolic operations on a span the sampler dropped, then destruction')]
HARNESSES['c04_sd'] = dict(src='c04_spandata.cc', defines=['OTEL_INTERNAL_LOG_LEVEL=0'], models=['libc.c', 'cxxrt.c', 'stdstring.c', 'single_threaded.c', 'pthread_clock.c', SP_LEAK_MODEL, 'rbtree.c', 'hashtable_policy.c', 'hash_bytes.c'], overrides=[SP_RELEASE], ir2c_flags=['--new-array-max', '64'], model_defines=['VERIF_NEW_ARRAY_MAX=64'])
QUERIES.append(dict(name='spandata_scalars_owned', harness='c04_sd', entry='h_spandata_scalars', unwind=18, unwindset=US, rec_unwind=3, timeout=900, tier='quick',
       shape='real SpanData: one or two SetName (3- and 2-byte symbolic names), one or two SetStatus (symbolic codes, descriptions of symbolic length 0 or 2), symbolic identity/flags/kind/start/duration; caller buffers freed before the getters are read'))
BOUNDS = ['2 operations per span in the quick tier (3 and 4 thorough), one processor (mock) and mock recordable']
OUTSIDE = ['MultiRecordable / MultiSpanProcessor fan-out (harness/c04_multi.cc exists; MultiRecordable keys a std::map by the numeric address of each processor, and CBMC could not decide the pointer-as-integer ordering: no end of symbolic execution in 300 s for 2 processors - parked)', 'Span destruction ending an open span (shared_ptr disposers are not run in these queries: measured, with the real release path the 2-operation query did not finish in 600 s)', 'SpanData attribute map, events and links (std::unordered_map / std::vector of variants: heavy-STL gate, DESIGN.md 7.7)', 'several threads on one span (mutex discipline only through the self-deadlock model)']
ASSUMPTIONS = ['std::shared_ptr release does not run disposers', 'pthread mutex = owner flag', 'clocks arbitrary non-decreasing']
