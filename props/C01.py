import os, sys
sys.path.insert(0, os.path.dirname(os.path.abspath(__file__)))
from common import *
PROPERTY = 'C01'
from batch_common import *
HARNESSES = {}; QUERIES = []
# export cycles: (queue, batch, records, ticket history, interference budget)
SHAPES_Q = [(2, 1, 2, 0, 0), (4, 2, 4, 0, 0), (4, 2, 4, 1, 0), (4, 2, 3, 2, 1), (4, 2, 2, 2, 3), (4, 2, 2, 0, 2)]
SHAPES_T = [(2, 1, 1, 0, 0), (2, 1, 0, 0, 0), (4, 2, 1, 0, 0), (4, 2, 2, 0, 0), (4, 2, 3, 0, 0), (4, 2, 3, 1, 0), (4, 2, 4, 2, 0), (4, 2, 2, 2, 1), (4, 2, 2, 2, 5), (4, 2, 3, 1, 4), (4, 3, 3, 1, 1), (3, 3, 3, 1, 0), (4, 4, 4, 2, 0), (2, 1, 1, 2, 3), (6, 3, 6, 1, 0), (6, 3, 5, 2, 3), (5, 2, 5, 2, 0), (6, 2, 6, 1, 2), (3, 1, 3, 2, 5)]
for logs in (False, True):
    for tier, shapes in (('quick', SHAPES_Q), ('thorough', SHAPES_T)):
        for (q, b, k, t, i) in shapes:
            if logs and tier == 'quick' and (q, b, k, t, i) not in ((4, 2, 4, 1, 0), (4, 2, 2, 2, 3)): tier_ = 'thorough'
            else: tier_ = tier
            add_query(HARNESSES, QUERIES, logs, q, b, k, t, i, 'h_export_cycle', 'export_cycle', tier_)
    for (q, b) in ((2, 1), (4, 2)):
        add_query(HARNESSES, QUERIES, logs, q, b, q, 0, 0, 'h_drop_only_when_full', 'drop_only_when_full', 'quick' if (q == 2 or not logs) else 'thorough')
BOUNDS = ['max_queue_size 2..6, max_export_batch_size 1..4, 0..6 records produced before the cycle, every size concrete per query (one query per shape, listed in samples)',
          'ticket history classes: ForceFlush never used / used earlier and completed / one flush outstanding', 'while the worker is inside the exporter (first Export call and/or the exporter ForceFlush), a concurrent producer call and/or a concurrent ForceFlush ticket, one concrete pattern per query']
OUTSIDE = ['real interleavings of producers with the worker (the lock-free queue under every interleaving is C11; here producer calls and ticket issues happen at the points where the worker is inside the exporter)',
           'per-producer order for several producer threads beyond "the queue is FIFO and each Add is atomic" (C11)', 'schedule_delay / exporter latency (time does not enter OnEnd/Export)', 'queue sizes above 6', 'DoBackgroundWork loop itself (its body is Export / DrainQueue, which are run directly)']
ASSUMPTIONS = BATCH_ASSUMPTIONS
