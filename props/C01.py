import os, sys
sys.path.insert(0, os.path.dirname(os.path.abspath(__file__)))
from common import *
PROPERTY = 'C01'
LIGHT = ['-S', '-passes=always-inline,function(mem2reg,simplifycfg),cgscc(inline),elim-avail-extern,globaldce,function(mem2reg,instsimplify,simplifycfg)']
MODELS = ['libc.c', 'cxxrt.c', 'stdstring.c', 'sched.c', 'single_threaded.c', 'pthread_clock.c', 'thread_cv.c']
def h(q, b, k, t, light=True):
    d = dict(src='c01_batch.cc', defines=['QMAX=%d' % q, 'BMAX=%d' % b, 'KITEMS=%d' % k, 'TICKETS=%d' % t, 'OTEL_INTERNAL_LOG_LEVEL=0'], models=MODELS, roots=['verif_worker_step'],
             ir2c_flags=['--new-array-max', '136'], model_defines=['VERIF_NEW_ARRAY_MAX=136'])
    if light: d['opt_flags'] = LIGHT
    return d
HARNESSES = {'c01_q2b1k2t0': h(2, 1, 2, 0), 'c01_q2b1k2t0_o1': h(2, 1, 2, 0, light=False)}
US = {'verif_mem': 70}
QUERIES = [
  dict(name='drop_q2', harness='c01_q2b1k2t0_o1', entry='h_drop_only_when_full', unwind=14, unwindset=US, timeout=600, tier='quick', shape='probe'),
  dict(name='ff_q2', harness='c01_q2b1k2t0_o1', entry='h_force_flush', unwind=14, unwindset=US, timeout=600, tier='quick', shape='probe'),
  dict(name='sd_q2', harness='c01_q2b1k2t0_o1', entry='h_shutdown', unwind=14, unwindset=US, timeout=600, tier='quick', shape='probe'),
  dict(name='export_cycle_q2b1k2t0', harness='c01_q2b1k2t0', entry='h_export_cycle', unwind=14, unwindset=US, timeout=600, tier='quick', shape='queue 2, batch 1, 2 records, ForceFlush never used'),
  dict(name='export_cycle_q2b1k2t0_o1', harness='c01_q2b1k2t0_o1', entry='h_export_cycle', unwind=14, unwindset=US, timeout=600, tier='thorough', shape='same, -O1 IR'),
]
for e in ('h_p0','h_p1','h_p2','h_p3'):
    QUERIES.append(dict(name=e[2:], harness='c01_q2b1k2t0_o1', entry=e, unwind=14, unwindset=US, timeout=600, tier='quick', shape='probe'))
BOUNDS = []
OUTSIDE = []
ASSUMPTIONS = []
