import os, sys
sys.path.insert(0, os.path.dirname(os.path.abspath(__file__)))
from common import *
PROPERTY = 'C03'
HARNESSES = {'c03_simple': dict(src='c02_multi.cc', defines=['NCHILD=2', 'OTEL_INTERNAL_LOG_LEVEL=0'], models=['libc.c', 'cxxrt.c', 'stdstring.c', 'single_threaded.c', 'sched.c'])}
QUERIES = [dict(name='simple_processor_lock_across_export', harness='c03_simple', entry='h_simple_processor', unwind=6, timeout=600,
                shape='two OnEnd calls and two Shutdown calls; exporter results symbolic; lock flag observed inside the exporter'),
           dict(name='simple_processor_lifecycle', harness='c03_simple', entry='h_simple_lifecycle', unwind=6, timeout=600,
                shape='OnEnd, ForceFlush, optional explicit Shutdown, destruction; exporter results symbolic')]
BOUNDS = ['SimpleSpanProcessor, sequential calls; mutual exclusion of the lock itself under interleavings is C11 (spinlock query)']
OUTSIDE = ['batch size bounds of BatchSpanProcessor/BatchLogRecordProcessor::Export (the clause that an earlier ForceFlush must not lift the bound): the object-level encoding of the batch processors ran out of memory (12-24 GB) in CBMC even for queue size 1 - measured, DESIGN.md 6 - so this clause is NOT decided; the defect seen by reading (Export takes the whole queue once force_flush_pending_sequence != 0) is recorded in DESIGN.md as unconfirmed by the solver',
           'periodic metric reader', 'SimpleLogRecordProcessor (same shape)']
ASSUMPTIONS = ['single executing thread inside the query; the lock flag is read through the sequential atomic hooks']
