import os, sys
sys.path.insert(0, os.path.dirname(os.path.abspath(__file__)))
from common import *
PROPERTY = 'C03'
HARNESSES = {'c03_simple': dict(src='c02_multi.cc', defines=['NCHILD=2', 'OTEL_INTERNAL_LOG_LEVEL=0'], models=['libc.c', 'cxxrt.c', 'stdstring.c', 'single_threaded.c', 'sched.c', 'thread_self.c'])}
QUERIES = [dict(name='simple_processor_lock_across_export', harness='c03_simple', entry='h_simple_processor', unwind=6, timeout=600,
                shape='two OnEnd calls and two Shutdown calls; exporter results symbolic; lock flag observed inside the exporter'),
           dict(name='simple_processor_lifecycle', harness='c03_simple', entry='h_simple_lifecycle', unwind=6, timeout=600,
                shape='OnEnd, ForceFlush, optional explicit Shutdown, destruction; exporter results symbolic')]
HARNESSES['c03_rg'] = dict(src='c03_simple_rg.cc', defines=['OTEL_INTERNAL_LOG_LEVEL=0'], models=['libc.c', 'cxxrt.c', 'stdstring.c', 'single_threaded.c', 'thread_self.c', 'rg_queue.c'], model_defines=['VERIF_CUSTOM_DELETE'], no_default_atomics=True, native_mode='generated_c', roots=['rg_consumer_take'])
for e, what in (('h_simple_span_rg', 'SimpleSpanProcessor::OnEnd'), ('h_simple_log_rg', 'SimpleLogRecordProcessor::OnEmit')):
    QUERIES.append(dict(name=e[2:], harness='c03_rg', entry=e, unwind=5, timeout=600, shape=what + ' two consecutive calls by one thread, each from an arbitrary lock state (free / held by another thread) with arbitrary interference on the lock flag before every atomic operation (bounded fairness: the other holder releases within two interferences)'))
from batch_common import *
for logs in (False, True):
    for (q, b, k, t, i, tier) in ((4, 2, 4, 1, 0, 'quick'), (4, 2, 4, 2, 0, 'quick'), (4, 2, 3, 1, 1, 'thorough'), (4, 3, 4, 1, 0, 'thorough'), (4, 1, 3, 2, 0, 'thorough'), (2, 1, 2, 1, 0, 'thorough')):
        add_query(HARNESSES, QUERIES, logs, q, b, k, t, i, 'h_export_cycle', 'batch_bounds_cycle', tier)
    add_query(HARNESSES, QUERIES, logs, 4, 2, 4, 0, 0, 'h_shutdown', 'batch_bounds_shutdown', 'quick')
HARNESSES['c03_per_i2'] = hp(0, 2)
QUERIES.append(dict(name='periodic_no_overlapping_export', harness='c03_per_i2', entry='h_collect_cycle', unwind=8, unwindset=BATCH_US, rec_unwind=3, timeout=600, tier='quick',
                    shape='PeriodicExportingMetricReader: a collect/export cycle during whose Export another thread may call Shutdown (joining the worker blocks until the cycle is over)'))
BOUNDS = ['batch processors (span and log): queue 2..4, batch 1..3, ticket history classes incl. an earlier ForceFlush, shutdown drain; concrete shape per query', 'SimpleSpanProcessor sequential call scripts; SimpleSpanProcessor::OnEnd and SimpleLogRecordProcessor::OnEmit thread-modularly (one call, arbitrary lock pre-state and interference); mutual exclusion of the lock itself is C11 (spinlock query)']
OUTSIDE = ['real overlap of two Export calls on a batch processor (there is one worker; Export is only reachable from Export()/DrainQueue(), which the harness runs one at a time; the mock exporter flags re-entry)', 'periodic metric reader racing ForceFlush beyond the patterns of C02 (ForceFlush itself never calls Export; only the worker cycle does)']
ASSUMPTIONS = ['single executing thread inside the query; the lock flag is read through the sequential atomic hooks'] + BATCH_ASSUMPTIONS
