import os, sys
sys.path.insert(0, os.path.dirname(os.path.abspath(__file__)))
from common import *
PROPERTY = 'C02'
def h(n):
    return dict(src='c02_multi.cc', defines=['NCHILD=%d' % n, 'OTEL_INTERNAL_LOG_LEVEL=0'], models=['libc.c', 'cxxrt.c', 'stdstring.c', 'single_threaded.c', 'sched.c'])
HARNESSES = {'c02_n2': h(2), 'c02_n3': h(3), 'c02_n1': h(1)}
QUERIES = [dict(name='multi_processor_aggregate_n%d' % n, harness='c02_n%d' % n, entry='h_multi_aggregate', unwind=6, timeout=600, tier='quick' if n in (2, 3) else 'thorough',
                shape='%d child processors whose ForceFlush/Shutdown results are symbolic' % n) for n in (1, 2, 3)]
for n in (2, 3):
    HARNESSES['c02_log_n%d' % n] = dict(src='c02_multi_log.cc', defines=['NCHILD=%d' % n, 'OTEL_INTERNAL_LOG_LEVEL=0'], models=['libc.c', 'cxxrt.c', 'stdstring.c', 'single_threaded.c', 'sched.c', 'pthread_clock.c', 'rbtree.c'], ir2c_flags=['--new-array-max', '64'], model_defines=['VERIF_NEW_ARRAY_MAX=64'])
    QUERIES.append(dict(name='multi_log_processor_aggregate_n%d' % n, harness='c02_log_n%d' % n, entry='h_multi_log_aggregate', unwind=6, unwindset={'verif_mem': 70}, timeout=600, tier='quick' if n == 2 else 'thorough',
                        shape='MultiLogRecordProcessor with %d children: symbolic ForceFlush/Shutdown results, symbolic timeout (or unlimited), arbitrary non-decreasing clock' % n))
from batch_common import *
for logs in (False, True):
    # export cycle with an outstanding ticket and interference (ticket protocol), ForceFlush caller, Shutdown caller
    for (q, b, k, t, i, tier) in ((4, 2, 3, 2, 0, 'quick'), (4, 2, 2, 2, 3, 'quick'), (4, 2, 2, 2, 5, 'thorough'), (4, 2, 3, 1, 4, 'thorough'), (2, 1, 2, 2, 2, 'thorough')):
        add_query(HARNESSES, QUERIES, logs, q, b, k, t, i, 'h_export_cycle', 'flush_ticket_cycle', tier if not logs or i == 3 else 'thorough')
    for (q, b, k, tier) in ((4, 2, 3, 'quick'), (2, 1, 2, 'thorough'), (4, 2, 0, 'thorough'), (4, 4, 4, 'thorough')):
        for (w, to) in ((1, 1), (1, 0), (1, 2), (0, 1)):
            add_ff_query(HARNESSES, QUERIES, logs, q, b, k, w, to, tier if (not logs and (w, to) in ((1, 1), (0, 1))) else 'thorough')
        add_query(HARNESSES, QUERIES, logs, q, b, k, 0, 0, 'h_shutdown', 'shutdown_call', tier)
    add_query(HARNESSES, QUERIES, logs, 4, 2, 3, 0, 6, 'h_shutdown', 'shutdown_two_callers', 'quick')
    add_query(HARNESSES, QUERIES, logs, 4, 2, 3, 2, 0, 'h_shutdown', 'shutdown_with_waiting_flush', 'quick' if not logs else 'thorough')
for (t, i, tier) in ((0, 0, 'thorough'), (2, 0, 'quick'), (0, 1, 'quick'), (2, 1, 'thorough'), (0, 2, 'quick')):
    HARNESSES['c02_per_t%di%d' % (t, i)] = hp(t, i)
    QUERIES.append(dict(name='periodic_collect_cycle_t%di%d' % (t, i), harness='c02_per_t%di%d' % (t, i), entry='h_collect_cycle', unwind=8, unwindset=BATCH_US, rec_unwind=3, timeout=600, tier=tier,
                        shape='PeriodicExportingMetricReader::CollectAndExportOnce: %s; %s' % (('no flush requested', '', 'a ForceFlush waiting when the cycle starts')[t], ('no interference', 'a measurement is recorded and a ForceFlush ticket taken while the cycle is inside Export, then a second cycle', 'another thread may call Shutdown while the cycle is inside Export')[i])))
for w in (1, 0):
    HARNESSES['c02_per_w%d' % w] = hp(0, 0, w)
    QUERIES.append(dict(name='periodic_force_flush_w%d' % w, harness='c02_per_w%d' % w, entry='h_reader_force_flush', unwind=8, unwindset=BATCH_US, rec_unwind=3, timeout=600, tier='quick' if w else 'thorough',
                        optional_reach=([] if w else ['periodic reader ForceFlush true: everything recorded before the call was handed to Export', "periodic reader ForceFlush true: the exporter's ForceFlush was invoked"]),
                        shape='MetricReader::ForceFlush on a periodic reader (1 s budget); the worker %s while the caller waits' % ('runs one collect/export cycle' if w else 'never runs (clock advances >= 2 s per reading)')))
    QUERIES.append(dict(name='periodic_shutdown_w%d' % w, harness='c02_per_w%d' % w, entry='h_reader_shutdown', unwind=8, unwindset=BATCH_US, rec_unwind=3, timeout=600, tier='quick' if w else 'thorough',
                        shape='MetricReader::Shutdown on a periodic reader; the joined worker %s; then a ForceFlush call' % ('finishes one more cycle' if w else 'is idle')))
BOUNDS = ['batch processors (span and log): max_queue_size 2..4, max_export_batch_size 1..4, 0..4 records, concrete shape per query; ForceFlush with timeout in {0 (=unlimited), 1000 us, max}; condition waits may time out or not', 'MultiSpanProcessor with 1..3 children (quick: 2 and 3) and MultiLogRecordProcessor with 2..3 children (quick: 2); one ForceFlush and one Shutdown; timeouts < 2^62 us or unlimited']
OUTSIDE = ['real interleavings of ForceFlush / Shutdown callers with the worker: the worker is sequentialised (its Export / DrainQueue steps run where the caller blocks or are called directly; concurrent producers and ForceFlush tickets act at the points where the worker is inside the exporter); two Shutdown calls racing each other',
           'the periodic reader DoBackgroundWork loop itself (its cycle CollectAndExportOnce is run directly) and the export_timeout path of a slow Collect (the collect thread body runs synchronously, so the future is always ready); TracerProvider/LoggerProvider/MeterProvider forwarding', 'termination (liveness)']
ASSUMPTIONS = ['operator new never fails'] + BATCH_ASSUMPTIONS
