import os, sys
sys.path.insert(0, os.path.dirname(os.path.abspath(__file__)))
from common import *
PROPERTY = 'C02'
def h(n):
    return dict(src='c02_multi.cc', defines=['NCHILD=%d' % n, 'OTEL_INTERNAL_LOG_LEVEL=0'], models=['libc.c', 'cxxrt.c', 'stdstring.c', 'single_threaded.c', 'sched.c'])
HARNESSES = {'c02_n2': h(2), 'c02_n3': h(3), 'c02_n1': h(1)}
QUERIES = [dict(name='multi_processor_aggregate_n%d' % n, harness='c02_n%d' % n, entry='h_multi_aggregate', unwind=6, timeout=600, tier='quick' if n in (2, 3) else 'thorough',
                shape='%d child processors whose ForceFlush/Shutdown results are symbolic' % n) for n in (1, 2, 3)]
for n in (2, 3):
    HARNESSES['c02_log_n%d' % n] = dict(src='c02_multi_log.cc', defines=['NCHILD=%d' % n, 'OTEL_INTERNAL_LOG_LEVEL=0'], models=['libc.c', 'cxxrt.c', 'stdstring.c', 'single_threaded.c', 'sched.c', 'pthread_clock.c', 'rbtree.c'], ir2c_flags=['--new-array-max', '64'], model_defines=['VERIF_NEW_ARRAY_MAX=64'])
    QUERIES.append(dict(name='multi_log_processor_aggregate_n%d' % n, harness='c02_log_n%d' % n, entry='h_multi_log_aggregate', unwind=6, unwindset={'verif_mem': 70}, timeout=600, tier='quick' if n == 2 else 'thorough',
                        shape='MultiLogRecordProcessor with %d children: symbolic ForceFlush/Shutdown results, symbolic timeout (or unlimited), arbitrary non-decreasing clock' % n))
BOUNDS = ['MultiSpanProcessor with 1..3 children (quick: 2 and 3) and MultiLogRecordProcessor with 2..3 children (quick: 2); one ForceFlush and one Shutdown; timeouts < 2^62 us or unlimited']
OUTSIDE = ['BatchSpanProcessor / BatchLogRecordProcessor ForceFlush and Shutdown themselves (ticket protocol, drain, join): the object-level encoding of the batch processors (std::vector<unique_ptr>, make_shared control block, condition variables, worker hand-off) ran out of memory (12-24 GB) in CBMC even for queue size 1 - measured, see DESIGN.md 6; this clause of C02 is therefore NOT decided',
           'periodic metric reader, TracerProvider/LoggerProvider/MeterProvider forwarding', 'termination (liveness)']
ASSUMPTIONS = ['operator new never fails']
