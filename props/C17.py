import os, sys
sys.path.insert(0, os.path.dirname(os.path.abspath(__file__)))
from common import *
PROPERTY = 'C17'
KERNEL_MODELS = ['libc.c', 'cxxrt.c', 'stdstring.c', 'sched.c', 'single_threaded.c', 'pthread_clock.c']
HARNESSES = {'c17_k': dict(src='c17_kernels.cc', defines=['OTEL_INTERNAL_LOG_LEVEL=0'], models=KERNEL_MODELS)}
HARNESSES['c17_reg2'] = dict(src='c17_registry.cc', defines=['NOPS=2', 'OTEL_INTERNAL_LOG_LEVEL=0'], models=KERNEL_MODELS + [SP_LEAK_MODEL, 'rbtree.c', 'hashtable_policy.c', 'hash_bytes.c'], overrides=[SP_RELEASE], ir2c_flags=['--new-array-max', '64'], model_defines=['VERIF_NEW_ARRAY_MAX=64'])
HARNESSES['c17_reg3'] = dict(HARNESSES['c17_reg2'], defines=['NOPS=3', 'OTEL_INTERNAL_LOG_LEVEL=0'])
QUERIES = []
for e, sh in (('h_lv_long_aggregate', 'two symbolic int64 measurements, clock arbitrary non-decreasing'),
              ('h_lv_double_aggregate', 'two symbolic finite doubles, clock arbitrary non-decreasing'),
              ('h_lv_long_merge', 'two int64 samples with symbolic instants t_old <= t_new < 2^62: older.Merge(newer), newer.Merge(older) [t_old < t_new], older.Diff(newer), fresh.Merge(newer)'),
              ('h_lv_double_merge', 'same for double samples'),
              ('h_sum_long_merge_diff', 'two symbolic int64 totals |x| < 2^61, symbolic monotonic flag: Merge, Diff, reconstruction'),
              ('h_sum_double_merge_diff', 'two symbolic finite double totals')):
    QUERIES.append(dict(name=e[2:], harness='c17_k', entry=e, unwind=4, timeout=600, tier='quick', solvers=['cadical', 'minisat'] if 'double' in e else ['minisat'], shape=sh))
QUERIES.append(dict(name='registry_ops2', harness='c17_reg2', entry='h_registry', unwind=6, unwindset={'verif_mem': 70, '_Hash_bytes': 24}, timeout=900, tier='quick', shape='2 instruments x 2 callbacks x 2 states; 2 symbolic operations from {AddCallback, RemoveCallback, destroy instrument}; then two Observe calls'))
QUERIES.append(dict(name='registry_ops3', harness='c17_reg3', entry='h_registry', unwind=7, unwindset={'verif_mem': 70, '_Hash_bytes': 24}, timeout=1800, tier='thorough', shape='same with 3 symbolic operations'))
BOUNDS = ['one or two samples per aggregation', 'sample instants < 2^62 ns', 'integer totals |x| < 2^61 (overflow outside)']
OUTSIDE = ['NaN / infinite measurements']
ASSUMPTIONS = ['single executing thread (spin lock hooks sequential)', 'operator new never fails', 'system_clock::now returns arbitrary non-decreasing instants']
