import os, sys
sys.path.insert(0, os.path.dirname(os.path.abspath(__file__)))
from common import *
PROPERTY = 'C08'
MODELS = ['libc.c', 'cxxrt.c', 'stdstring.c', 'sched.c', 'single_threaded.c', 'pthread_clock.c', SP_LEAK_MODEL, 'rbtree.c', 'hashtable_policy.c', 'hash_bytes.c']
def h(ne):
    return dict(src='c08_attrs.cc', defines=['NE=%d' % ne, 'OTEL_INTERNAL_LOG_LEVEL=0'], models=MODELS, overrides=[SP_RELEASE], ir2c_flags=['--new-array-max', '136'], model_defines=['VERIF_NEW_ARRAY_MAX=136'])
HARNESSES = {}; QUERIES = []
US = {'verif_mem': 140, '_Hash_bytes': 24, 'strlen': 24, 'memcmp': 24, 'memcpy': 24, 'bcmp': 24}
def hs(ne, k1, k2, tys, allow, use_filter, limit=3):
    return dict(h(ne), defines=['NE=%d' % ne, 'OTEL_INTERNAL_LOG_LEVEL=0', 'KEYS1=%s' % ','.join(map(str, k1)), 'KEYS2=%s' % ','.join(map(str, k2)), 'TYS=%s' % ','.join(map(str, tys)),
                                 'ALLOW=%s' % ','.join(map(str, allow)), 'USE_FILTER=%d' % use_filter, 'LIMIT=%d' % limit])
KN = ['a', 'bb', 'c']
SHAPES = [  # (ne, keys of list 1, keys of list 2, value types (0 bool, 1 int64), allow-list, filter used, tier, what)
  (2, (0, 2), (2, 0), (0, 0, 0), (1, 0, 1), 1, 'quick', 'the same two keys in the opposite order, bool values, both keys allowed'),
  (2, (0, 2), (2, 0), (0, 1, 1), (1, 0, 1), 1, 'quick', 'the same two keys in the opposite order, one bool and one int64 value'),
  (2, (0, 0), (0, 1), (1, 1, 1), (1, 0, 1), 1, 'quick', 'a duplicate key (last wins) against a list whose other key the filter removes'),
  (2, (0, 1), (0, 2), (1, 0, 1), (1, 1, 1), 0, 'quick', 'different key sets, bool and int64 values, no filter'),
  (2, (0, 1), (1, 0), (0, 0, 0), (1, 1, 0), 1, 'thorough', 'keys a, bb in the opposite order, bool values, both allowed'),
  (2, (0, 1), (1, 0), (0, 1, 1), (0, 1, 1), 1, 'thorough', 'opposite order, the filter removes the first key'),
  (2, (0, 1), (1, 0), (1, 1, 1), (1, 0, 1), 1, 'thorough', 'opposite order, the filter removes the second key'),
  (3, (0, 0, 0), (0, 1, 2), (1, 1, 1), (1, 0, 0), 1, 'thorough', 'one key three times against three keys of which the filter keeps one'),
  (2, (1, 1), (1, 1), (0, 1, 1), (1, 1, 1), 0, 'thorough', 'the same key twice in both lists, bool values, no filter'),
]
# measured and NOT registered (no end of symbolic execution in 300-600 s): two surviving int64 values in opposite order, three surviving keys,
# AttributesHashMap limit/overflow (harness/c08_hashmap.cc: unordered_map emplace + std::function factory)
for n, (ne, k1, k2, tys, allow, uf, tier, what) in enumerate(SHAPES):
    tag = 'c08_s%d' % n
    HARNESSES[tag] = hs(ne, k1, k2, tys, allow, uf)
    QUERIES.append(dict(name='attr_identity_shape%d' % n, harness=tag, entry='h_attr_identity', unwind=6, unwindset=US, rec_unwind=3, timeout=900, tier=tier,
                        shape='list 1 keys (%s), list 2 keys (%s): %s; %s; values symbolic' % (','.join(KN[i] for i in k1), ','.join(KN[i] for i in k2), what, ('filter allows ' + '/'.join(KN[i] for i in range(3) if allow[i])) if uf else 'no filter')))
BOUNDS = ['attribute lists of 2-3 entries over 3 distinct keys of 1-2 bytes: one query per concrete shape (key sequence, value types, allow-list) listed in samples; attribute VALUES are symbolic (bool / int64)', ]
OUTSIDE = ['symbolic keys / value types / allow-lists (a symbolic choice of key makes the std::map shape symbolic: no end of symbolic execution in 400 s - each shape is its own query instead)', 'the real FilteringAttributesProcessor (a mock allow-list filter is used; reading note: its isPresent calls find(key.data()) on a string_view)', 'the cardinality limit / overflow series of AttributesHashMap (harness/c08_hashmap.cc exists: no end of symbolic execution in 600 s) and conservation through SyncMetricStorage/TemporalMetricStorage collection cycles', 'shapes with two surviving int64 values in opposite order or three surviving keys (no end of symbolic execution in 300-600 s)', 'string / double / array valued attributes', 'hash quality (only equal => equal is decided; std::_Hash_bytes is a stand-in)']
ASSUMPTIONS = ['operator new never fails', 'std::_Rb_tree / _Prime_rehash_policy out-of-line parts are C ports (models/rbtree.c, models/hashtable_policy.c)']
