PROPERTY = 'C09'
HARNESSES = {
  'c09_leaf': dict(src='c09_leaf.cc'),
}
QUERIES = [
  dict(name='flags_lower_hex', harness='c09_leaf', entry='h_flags_lower_hex', unwind=3, shape='all 256 flag bytes'),
  dict(name='hex_roundtrip4', harness='c09_leaf', entry='h_hex_roundtrip', unwind=5, shape='all 4-byte strings'),
]
BOUNDS = []
OUTSIDE = []
ASSUMPTIONS = []
