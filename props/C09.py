import os, sys
sys.path.insert(0, os.path.dirname(os.path.abspath(__file__)))
from common import *
PROPERTY = 'C09'
def w3c(length):
    return dict(src='c09_w3c.cc', defines=['LEN=%d' % length], overrides=TS_OVERRIDES + [SP_RELEASE], models=TS_MODELS + ['libc.c', 'cxxrt.c', SP_LEAK_MODEL],
                gen_models=gen_regex_tables)
HARNESSES = {'c09_leaf': dict(src='c09_leaf.cc')}
QUERIES = [
  dict(name='flags_lower_hex', harness='c09_leaf', entry='h_flags_lower_hex', unwind=3, shape='all 256 flag bytes'),
  dict(name='hex_roundtrip4', harness='c09_leaf', entry='h_hex_roundtrip', unwind=5, shape='all 4-byte strings'),
]
QUICK_LENS = [0, 1, 54, 55, 56]
for L in range(0, 59):
    HARNESSES['c09_w3c_%d' % L] = w3c(L)
    QUERIES.append(dict(name='extract_len%d' % L, harness='c09_w3c_%d' % L, entry='h_extract', unwind=max(L, 16) + 2, unwindset={'IsValidHex': 10, 're_match': 10, '_M_dispose': 3},
                        tier='quick' if L in QUICK_LENS else 'thorough', timeout=900,
                        optional_reach=['extracted context is remote', 'extracted ids equal the encoded hex digits',
                                        'extracted flags byte equals the encoded hex digits'] if L < 55 else [],
                        shape='every traceparent byte string of length %d (exactly-sized heap object)' % L))
QUERIES.append(dict(name='inject_roundtrip', harness='c09_w3c_55', entry='h_inject', unwind=57, unwindset={'IsValidHex': 10, 're_match': 10, '_M_dispose': 3}, timeout=900,
                    shape='all 2^128 x 2^64 ids, all 256 flag bytes, remote bit symbolic'))
BOUNDS = ['traceparent length 0..58 bytes (each length one query, all bytes symbolic)', 'tracestate empty in these queries (its grammar is C14)']
OUTSIDE = ['traceparent longer than 58 bytes', 'non-empty tracestate during extraction (see C14)', 'isspace() on bytes >= 0x80 is modelled as glibc C-locale table (false)']
ASSUMPTIONS = ['std::regex_match replaced by tables generated from the real literals (re2smt.py)', 'operator new never fails']
