import os, sys
sys.path.insert(0, os.path.dirname(os.path.abspath(__file__)))
from common import *
PROPERTY = 'C05'
MODES = {0: 'no parent at all', 1: 'explicit valid SpanContext', 2: 'explicit Context holding a valid span', 3: 'explicit root Context while another span is active',
         4: 'active span on the thread', 5: 'explicit invalid SpanContext while a span is active',
         6: 'explicit Context with no span and not marked root (empty or is_root_span=false) while a span is active'}
def h(mode):
    return dict(src='c05_tracer.cc', defines=['PARENT_MODE=%d' % mode, 'OTEL_INTERNAL_LOG_LEVEL=0'], overrides=TS_OVERRIDES + [SP_RELEASE],
                models=TS_MODELS + ['libc.c', 'cxxrt.c', 'stdstring.c', 'single_threaded.c', 'pthread_clock.c', SP_LEAK_MODEL], gen_models=gen_regex_tables)
US = {'re_match': 10, 'bcmp': 24, 'strlen': 24, 'memcmp': 24, 'verif_mem': 70}
HARNESSES = {}; QUERIES = []
for mode in MODES:
    HARNESSES['c05_p%d' % mode] = h(mode)
    QUERIES.append(dict(name='start_span_parent%d' % mode, harness='c05_p%d' % mode, entry='h_start_span', unwind=18, unwindset=US, rec_unwind=3, timeout=1500,
                        tier='quick' if mode in (0, 1, 4, 6) else 'thorough',
                        shape='%s; every parent id/flags byte/remote bit, every sampler decision, sampler trace state given or not, generator ids symbolic non-zero, IsRandom symbolic' % MODES[mode]))
BOUNDS = ['one StartSpan (+End) per query; the six parenting situations are separate queries']
OUTSIDE = ['RandomIdGenerator output being non-zero (probabilistic, not a for-all statement)', 'several threads / thread_local isolation (language guarantee)', 'span links and attributes passed to StartSpan',
           'TracerContext/Tracer constructors (state is placed directly; resource and scope are opaque to the mocks)']
ASSUMPTIONS = ['std::shared_ptr release does not run disposers (values, not lifetimes, are the subject)', 'pthread mutex = owner flag; clocks = arbitrary non-decreasing instants']
