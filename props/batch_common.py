"""shared by C01 / C02 / C03: harness variants of harness/c01_batch.cc (span and log batch processors) and harness/c02_periodic.cc"""
from common import SP_LEAK_MODEL, SP_RELEASE
BATCH_MODELS = ['libc.c', 'cxxrt.c', 'stdstring.c', 'sched.c', 'single_threaded.c', 'pthread_clock.c', 'thread_cv.c']
BATCH_US = {'verif_mem': 70}
BATCH_ASSUMPTIONS = ['the worker thread is never started: its steps (Export, DrainQueue) are run by the harness directly, or from the hook where the calling thread blocks (condition wait / join, models/thread_cv.c)',
                     'atomics sequentially consistent and executed sequentially inside a query (concurrent correctness of the queue is C11)', 'pthread mutex = owner flag (re-locking = self-deadlock report); condition wait may time out or not (symbolic)',
                     'operator new never fails; std::vector storage is a typed constant-size object (larger requests are reported)', 'replay of witnesses / counterexamples runs the gcc build of the generated C with the same models (the worker thread must not really start)']
def batch_harness(logs, q, b, k, t, i, extra=()):
    d = dict(src='c01_batch.cc', defines=['QMAX=%d' % q, 'BMAX=%d' % b, 'KITEMS=%d' % k, 'TICKETS=%d' % t, 'INTERFERE=%d' % i, 'OTEL_INTERNAL_LOG_LEVEL=0'] + (['LOGS=1'] if logs else []) + list(extra),
             models=BATCH_MODELS, roots=['verif_worker_step'], native_mode='generated_c', ir2c_flags=['--new-array-max', '136'], model_defines=['VERIF_NEW_ARRAY_MAX=136'])
    return d
def add_query(H, Q, logs, q, b, k, t, i, entry, label, tier, timeout=600):
    tag = 'b_%s_q%db%dk%dt%di%d' % ('log' if logs else 'span', q, b, k, t, i)
    if tag not in H: H[tag] = batch_harness(logs, q, b, k, t, i)
    name = '%s_%s_q%db%dk%dt%di%d' % (label, 'log' if logs else 'span', q, b, k, t, i)
    Q.append(dict(name=name, harness=tag, entry=entry, unwind=18, unwindset=BATCH_US, rec_unwind=3, timeout=timeout, tier=tier,
                  shape='%s: max_queue_size %d, max_export_batch_size %d, %d records produced first, ticket history %s, interference inside the exporter: %s' % (
                      'BatchLogRecordProcessor' if logs else 'BatchSpanProcessor', q, b, k, ('ForceFlush never used', 'earlier flush completed', 'one flush outstanding')[t], ('none', 'producer call during the first Export', 'producer call + flush ticket during the first Export', 'producer call + flush ticket during the exporter ForceFlush', 'flush ticket during the first Export', 'producer + ticket during the first Export and during the exporter ForceFlush', 'a second thread may call Shutdown during the first Export')[i])))

def add_ff_query(H, Q, logs, q, b, k, wmode, toclass, tier, timeout=600):
    tag = 'b_%s_q%db%dk%d_w%dto%d' % ('log' if logs else 'span', q, b, k, wmode, toclass)
    if tag not in H: H[tag] = batch_harness(logs, q, b, k, 0, 0, ['WMODE=%d' % wmode, 'TOCLASS=%d' % toclass])
    Q.append(dict(name='force_flush_call_%s_q%db%dk%d_w%dto%d' % ('log' if logs else 'span', q, b, k, wmode, toclass), harness=tag, entry='h_force_flush', unwind=18, unwindset=BATCH_US, rec_unwind=3, timeout=timeout, tier=tier,
                  optional_reach=([] if wmode else ['ForceFlush true: everything ended before the call was exported exactly once', "ForceFlush true: the exporter's ForceFlush ran after those records"]),
                  shape='%s::ForceFlush: queue %d, batch %d, %d records queued; %s; timeout %s; condition waits may time out or not' % ('BatchLogRecordProcessor' if logs else 'BatchSpanProcessor', q, b, k,
                        'the worker runs an export cycle while the caller waits' if wmode else 'the worker never runs (clock advances >= 2 ms per reading)', ('0 (unlimited)', '1000 us', 'microseconds::max')[toclass])))

def hp(t, i, w=1):
    return dict(src='c02_periodic.cc', defines=['TICKETS=%d' % t, 'INTERFERE=%d' % i, 'WMODE=%d' % w, 'OTEL_INTERNAL_LOG_LEVEL=0'], models=BATCH_MODELS + ['future_once.c', SP_LEAK_MODEL], overrides=[SP_RELEASE], roots=['verif_worker_step', 'verif_thread_run'],
                native_mode='generated_c', ir2c_flags=['--new-array-max', '136'], model_defines=['VERIF_NEW_ARRAY_MAX=136', 'VERIF_THREAD_RUN_AT_START', 'pthread_once=verif_pthread_once', '__once_proxy=verif_once_proxy', '_ZSt11__once_call=verif_once_call', '_ZSt15__once_callable=verif_once_callable'])
