import os, sys
sys.path.insert(0, os.path.dirname(os.path.abspath(__file__)))
from common import *
PROPERTY = 'C11'
def h(mx):
    return dict(src='c11_queue.cc', defines=['MAXSZ=%d' % mx], models=['libc.c', 'cxxrt.c', 'rg_queue.c'], no_default_atomics=True,
                model_defines=['VERIF_CUSTOM_DELETE'], native_mode='generated_c', roots=['rg_consumer_take'])
HARNESSES = {}
QUERIES = []
for mx in (1, 2, 3):
    tag = 'c11_m%d' % mx; HARNESSES[tag] = h(mx)
    tier = 'quick' if mx == 2 else 'thorough'
    QUERIES += [
      dict(name='producer_add_max%d' % mx, harness=tag, entry='h_producer_add', unwind=7, tier=tier, timeout=1200, solvers=['cadical', 'minisat'],
           shape='capacity %d (+1 slot); arbitrary invariant pre-state; arbitrary interference (any number of producers + consumer) before each atomic op; weak CAS may fail spuriously; loop checked inductively (one iteration + invariant at the back edge)' % mx),
      dict(name='consumer_consume_max%d' % mx, harness=tag, entry='h_consumer_consume', unwind=7, tier=tier, timeout=1200, solvers=['cadical', 'minisat'],
           shape='capacity %d; symbolic n <= size; producers interfere before each atomic op' % mx),
      dict(name='rg_consistency_max%d' % mx, harness=tag, entry='h_rg_consistency', unwind=7, tier=tier, timeout=1200, solvers=['cadical', 'minisat'],
           shape='every invariant state x every guarantee step: invariant inductive, G_U => R_T'),
    ]
# the retry loop run for real: 10 consecutive failed attempts (interference or spurious CAS failure before each), not only one inductive step;
# catches state the loop keeps outside the shared cells (e.g. an attempt counter that makes Add give up on a non-full buffer)
for mx, tier in ((1, 'quick'), (2, 'thorough')):
    tag = 'c11_m%d_retry10' % mx; HARNESSES[tag] = h(mx); HARNESSES[tag]['model_defines'] = ['VERIF_CUSTOM_DELETE', 'RG_PRODUCER_CUT=11', 'RG_RETRY_INTERFERE_BETWEEN_ATTEMPTS']
    QUERIES.append(dict(name='producer_add_retry10_max%d' % mx, harness=tag, entry='h_producer_add', unwind=12, tier=tier, timeout=1200, solvers=['cadical', 'minisat'],
           shape='capacity %d (+1 slot); arbitrary invariant pre-state; up to 10 consecutive failed attempts of the Add loop executed; first attempt: arbitrary interference before each atomic op; attempts 2..10: other threads act (arbitrarily, any number of them) between attempts only, weak CAS may still fail spuriously; loop invariant re-checked at every back edge, path cut at the 11th attempt' % mx))
QUERIES.append(dict(name='spinlock', harness='c11_m2', entry='h_spinlock', unwind=5, timeout=600,
                    shape='try_lock / lock+unlock from arbitrary flag state with arbitrary interference; lock(): bounded fairness (flag stays clear after 2 interferences)'))
BOUNDS = ['capacity 1..3 (quick: 2)', 'bounded-retry query: capacity 1 (thorough: also 2), at most 10 consecutive failed attempts of Add, interference inside attempts 2..10 restricted to the points between attempts', 'head/tail counters < 200 (64-bit wrap outside)', 'one Add / one Consume / one lock operation per query from an arbitrary invariant state (thread-modular induction over atomic steps)']
OUTSIDE = ['memory orders weaker than sequential consistency', 'counter wrap-around after 2^64 operations', 'unbounded starvation of lock() (only bounded progress under a fairness assumption is checked)',
           'real interleavings are not enumerated: soundness rests on the rely/guarantee pairs, whose mutual consistency is itself a solver query (rg_consistency_*)']
TRUSTED = ['rely/guarantee side conditions argued in DESIGN.md C11 (token uniqueness; a pending token never sits in a claimed slot)']
ASSUMPTIONS = ['tokens are opaque ids; operator delete is a ghost recorder', 'single consumer (documented contract of CircularBuffer)']
