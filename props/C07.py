import os, sys
sys.path.insert(0, os.path.dirname(os.path.abspath(__file__)))
from common import *
PROPERTY = 'C07'
def h(nb):
    return dict(src='c07_histogram.cc', defines=['NB=%d' % nb, 'OTEL_INTERNAL_LOG_LEVEL=0'], models=['libc.c', 'cxxrt.c', 'stdstring.c', 'sched.c', 'single_threaded.c'], ir2c_flags=['--new-array-max', '136'], model_defines=['VERIF_NEW_ARRAY_MAX=136'])
HARNESSES = {}
QUERIES = []
for nb in (0, 1, 2, 3):
    HARNESSES['c07_%d' % nb] = h(nb)
    tier = 'quick' if nb in (2,) else 'thorough'
    U = max(nb + 3, 5)
    for e, sh in (('h_long_aggregate', '2 symbolic int64 values in [0,2^62)'), ('h_double_aggregate', '2 symbolic finite non-negative doubles'),
                  ('h_long_merge', '1+1 values merged vs 2 values in one histogram'), ('h_double_merge', '1+1 values merged vs 2 values in one histogram')):
        mt = 'thorough' if 'merge' in e else tier      # Merge: 14 M variables, needs the 28 GB cap -> thorough tier
        QUERIES.append(dict(name='%s_nb%d' % (e[2:], nb), harness='c07_%d' % nb, entry=e, unwind=U, mem_gb=28 if 'merge' in e else 12, unwindset={'memmove': 40, 'memcpy': 40, 'memset': 40, 'verif_mem': 140}, tier=mt, timeout=900 if 'merge' not in e else 2400, solvers=['cadical', 'minisat'] if 'merge' not in e else ['minisat'],
                            shape='%d symbolic strictly increasing finite boundaries; %s' % (nb, sh)))
QUERIES.append(dict(name='default_boundaries', harness='c07_2', entry='h_default_boundaries', unwind=18, unwindset={'memmove': 140, 'memcpy': 140, 'memset': 140, 'verif_mem': 140}, timeout=900,
                    shape='15 default boundaries, one symbolic finite non-negative double'))
BOUNDS = ['<= 3 view-configured boundaries (symbolic, strictly increasing, finite) or the 15 defaults', '2 values per aggregation (1+1 for Merge)', 'integer values < 2^62 (sum overflow outside)']
OUTSIDE = ['NaN / infinite / negative measurements (API contract)', 'Diff', 'more than 2 values per interval', 'Base2 exponential histograms']
ASSUMPTIONS = ['std::vector storage is a typed constant-size object of 136 bytes (larger requests are reported)', 'single executing thread (spin lock hooks sequential)', 'operator new never fails']
