import os, sys
sys.path.insert(0, os.path.dirname(os.path.abspath(__file__)))
from common import *
PROPERTY = 'C14'
def h(nstart, length=5, limit=None):
    d = dict(src='c14_tracestate.cc', defines=['NSTART=%d' % nstart, 'LEN=%d' % length], overrides=TS_OVERRIDES + [SP_RELEASE],
             models=TS_MODELS + ['libc.c', 'cxxrt.c', 'stdstring.c', 'single_threaded.c', SP_LEAK_MODEL], gen_models=gen_regex_tables, model_defines=['VERIF_NEW_ARRAY_MAX=64'], ir2c_flags=['--new-array-max', '136'])
    if limit: d['gen_includes'] = patched_trace_state_limit(limit)
    return d
US = {'re_match': 10, 'bcmp': 8, 'strlen': 8, 'memcmp': 8, 'verif_mem': 140}
HARNESSES = {}
QUERIES = []
for ns in (0, 1, 2, 3):
    tag = 'c14_n%d' % ns
    HARNESSES[tag] = h(ns)
    tier = 'quick' if ns == 2 else 'thorough'
    U = 4 * ns + 6
    for e, sh in (('h_set', 'Set(key,value) with 1-byte key/value over an 8-letter alphabet (valid, invalid, separators; present and absent keys)'), ('h_delete', 'Delete(key) with a 1-byte key over the alphabet'),
                  ('h_header_roundtrip', 'ToHeader -> FromHeader')):
        if e == 'h_header_roundtrip' and ns != 0: continue   # ToHeader -> FromHeader on 1..3 members: no verdict in 1200 s / 28 GB on the final tree (measured) - not registered
        if e == 'h_header_roundtrip': tier = 'thorough'
        QUERIES.append(dict(name='%s_n%d' % (e[2:], ns), harness=tag, entry=e, unwind=U, unwindset=dict(US, verif_mem=60), rec_unwind=3, tier=tier, timeout=1200, mem_gb=28,
                            optional_reach=['Set of a new key on a full list returns an unchanged copy'],
                            shape='%d distinct valid 1-byte members; %s' % (ns, sh)))
HARNESSES['c14_lim3'] = h(3, limit=3)
HARNESSES['c14_lim3_n2'] = h(2, limit=3)
QUERIES.append(dict(name='set_one_below_scaled_limit', harness='c14_lim3_n2', entry='h_set', unwind=8, unwindset=dict(US, verif_mem=60), rec_unwind=3, timeout=1200, mem_gb=28,
                    optional_reach=['Set of a new key on a full list returns an unchanged copy'],
                    shape='list one member below the member limit (kMaxKeyValuePairs scaled 32 -> 3): a new key must still be accepted'))
QUERIES.append(dict(name='set_at_scaled_limit', harness='c14_lim3', entry='h_set', unwind=8, unwindset=dict(US, verif_mem=60), rec_unwind=3, timeout=1200, mem_gb=28,
                    shape='list already at the member limit (kMaxKeyValuePairs scaled 32 -> 3 in a scratch copy of trace_state.h); Set of present and absent keys'))
for L in range(0, 8):
    HARNESSES['c14_any%d' % L] = h(0, L)
    tier = 'quick' if L in (0, 3, 4) else 'thorough'
    QUERIES.append(dict(name='from_any_header_len%d' % L, harness='c14_any%d' % L, entry='h_from_any_header', unwind=L + 4, unwindset=US, rec_unwind=3, tier=tier, timeout=1200,
                        shape='every header byte string of length %d' % L, optional_reach=[] ))
    if L == 7: QUERIES.pop()   # FromHeader on every 7-byte header: no verdict in 1200 s (measured) - only the tokenizer query remains at that length
    QUERIES.append(dict(name='tokenizer_len%d' % L, harness='c14_any%d' % L, entry='h_tokenizer', unwind=L + 4, unwindset=US, tier=tier, timeout=1200,
                        shape='every header byte string of length %d' % L))
def extra_engine(args, work):
    return regex_engine(['ts_key', 'ts_value'], args, work)
BOUNDS = ['list of 0..3 members with 1-byte keys and values', 'member limit logic at the scaled constant 3 (real value asserted to be 32)',
          'arbitrary headers: FromHeader on every byte string of each length 0..6, the tokenizer on every length 0..7 (quick: 0,3,4), exactly sized buffers', 'regex literals vs grammar: every byte string <= 258 bytes']
OUTSIDE = ['ToHeader followed by FromHeader on a non-empty list (no verdict in 1200 s / 28 GB; the empty list is decided)', 'keys/values longer than one byte in Set/Delete scripts', 'lists longer than 3 members', 'sequences of more than one Set/Delete (each step is checked from an arbitrary valid list of the shape)']
TRUSTED = ['std::regex_match implements ECMAScript full match for the literal subset (re2smt.py)', 'grammar: key = (lcalpha/DIGIT) 0*255 keychar | tenant@system as documented in trace_state.h']
ASSUMPTIONS = ['std::shared_ptr release does not run disposers (TraceState objects are leaked; values, not lifetimes, are the subject)', 'operator new[] allocates a fixed 64 bytes (larger requests are reported); overruns inside the slack are not detected', 'IsValidKeyRegEx/IsValidValueRegEx replaced by tables generated from the real literals']
