import os, sys
sys.path.insert(0, os.path.dirname(os.path.abspath(__file__)))
from common import *
PROPERTY = 'C14'
def h(nstart, length=5, limit=None):
    d = dict(src='c14_tracestate.cc', defines=['NSTART=%d' % nstart, 'LEN=%d' % length], overrides=TS_OVERRIDES,
             models=TS_MODELS + ['libc.c', 'cxxrt.c', 'stdstring.c', 'single_threaded.c'], gen_models=gen_regex_tables)
    if limit: d['gen_includes'] = patched_trace_state_limit(limit)
    return d
US = {'re_match': 10, 'bcmp': 8, 'strlen': 8, 'memcmp': 8}
HARNESSES = {}
QUERIES = []
for ns in (0, 1, 2, 3):
    tag = 'c14_n%d' % ns
    HARNESSES[tag] = h(ns)
    tier = 'quick' if ns == 2 else 'thorough'
    U = 4 * ns + 6
    for e, sh in (('h_set', 'Set(key,value) with every 1-byte key/value (valid, invalid, present, absent)'), ('h_delete', 'Delete(key) with every 1-byte key'),
                  ('h_header_roundtrip', 'ToHeader -> FromHeader')):
        QUERIES.append(dict(name='%s_n%d' % (e[2:], ns), harness=tag, entry=e, unwind=U, unwindset=US, rec_unwind=3, tier=tier, timeout=1200,
                            shape='%d distinct valid 1-byte members; %s' % (ns, sh)))
HARNESSES['c14_lim3'] = h(3, limit=3)
QUERIES.append(dict(name='set_at_scaled_limit', harness='c14_lim3', entry='h_set', unwind=18, unwindset=US, rec_unwind=3, timeout=1200,
                    shape='list already at the member limit (kMaxKeyValuePairs scaled 32 -> 3 in a scratch copy of trace_state.h); Set of present and absent keys'))
HARNESSES['c14_any4'] = h(0, 4); HARNESSES['c14_any6'] = h(0, 6)
QUERIES.append(dict(name='from_any_header_len4', harness='c14_any4', entry='h_from_any_header', unwind=8, unwindset=US, rec_unwind=3, timeout=1200, shape='every header byte string of length <= 4'))
QUERIES.append(dict(name='tokenizer_len4', harness='c14_any4', entry='h_tokenizer', unwind=8, unwindset=US, timeout=1200, shape='every header byte string of length <= 4'))
QUERIES.append(dict(name='from_any_header_len6', harness='c14_any6', entry='h_from_any_header', unwind=10, unwindset=US, rec_unwind=3, tier='thorough', timeout=1800, shape='every header byte string of length <= 6'))
QUERIES.append(dict(name='tokenizer_len6', harness='c14_any6', entry='h_tokenizer', unwind=10, unwindset=US, tier='thorough', timeout=1800, shape='every header byte string of length <= 6'))
def extra_engine(args, work):
    return regex_engine(['ts_key', 'ts_value'], args, work)
BOUNDS = ['list of 0..3 members with 1-byte keys and values', 'member limit logic at the scaled constant 3 (real value asserted to be 32)',
          'arbitrary headers <= 4 bytes (quick) / 6 bytes (thorough)', 'regex literals vs grammar: every byte string <= 258 bytes']
OUTSIDE = ['keys/values longer than one byte in Set/Delete scripts', 'lists longer than 3 members', 'sequences of more than one Set/Delete (each step is checked from an arbitrary valid list of the shape)']
TRUSTED = ['std::regex_match implements ECMAScript full match for the literal subset (re2smt.py)', 'grammar: key = (lcalpha/DIGIT) 0*255 keychar | tenant@system as documented in trace_state.h']
ASSUMPTIONS = ['IsValidKeyRegEx/IsValidValueRegEx replaced by tables generated from the real literals']
