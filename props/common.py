"""shared pieces of the property specs"""
import os, sys
VERIF = os.path.dirname(os.path.dirname(os.path.abspath(__file__)))
sys.path.insert(0, os.path.join(VERIF, 'tools'))
import re2smt

REPO = os.environ.get('VERIF_REPO', '/repo')
TS_H = REPO + '/api/include/opentelemetry/trace/trace_state.h'
IMV_CC = REPO + '/sdk/src/metrics/instrument_metadata_validator.cc'

def regex_literals():
    return [
        ('reg_key', TS_H, 'reg_key'),
        ('reg_key_multitenant', TS_H, 'reg_key_multitenant'),
        ('reg_value', TS_H, 'reg_value'),
        ('instrument_name', IMV_CC, 'kInstrumentNamePattern'),
        ('instrument_unit', IMV_CC, 'kInstrumentUnitPattern'),
    ]

def gen_regex_tables(workdir):
    """regex_tables.c generated from the literals in the real source (every run)"""
    items = []; pats = {}
    for cname, path, var in regex_literals():
        pat = re2smt.extract(path, var)
        items.append((cname, re2smt.parse(pat))); pats[cname] = pat
    p = os.path.join(workdir, 'regex_tables.c')
    open(p, 'w').write(re2smt.emit_c(items, pats))
    return [p]

TS_OVERRIDES = ['_ZN13opentelemetry2v15trace10TraceState15IsValidKeyRegExENS0_5nostd11string_viewE',
                '_ZN13opentelemetry2v15trace10TraceState17IsValidValueRegExENS0_5nostd11string_viewE']
TS_MODELS = ['regex_model.c', 'tracestate_regex.c']
RE_UNWINDSET = {'re_match.0': 10, 're_match.1': 10, 're_match.2': 10, 're_match.3': 10, 're_match.4': 10, 're_match.5': 10}

SP_RELEASE = '_ZNSt16_Sp_counted_baseILN9__gnu_cxx12_Lock_policyE2EE10_M_releaseEv'
SP_LEAK_MODEL = 'sp_release_leak.c'

# ----------------------------------------------------------------------------- re2smt engine (C14 Q1, C19 Q1)
def _cls(z3, c, ranges, singles=()):
    ts = [z3.And(z3.UGE(c, z3.BitVecVal(a, 8)), z3.ULE(c, z3.BitVecVal(b, 8))) for a, b in ranges]
    ts += [c == z3.BitVecVal(x, 8) for x in singles]
    return z3.Or(ts)

def spec_ts_key(z3, s, n, L):
    """W3C tracestate key as documented in trace_state.h: simple-key | tenant@system, first char lcalpha/DIGIT"""
    first = lambda c: _cls(z3, c, [(97, 122), (48, 57)])
    keych = lambda c: _cls(z3, c, [(97, 122), (48, 57)], (ord('_'), ord('-'), ord('*'), ord('/')))
    N = lambda v: z3.BitVecVal(v, 16)
    pre = [z3.BoolVal(True), z3.BoolVal(True)]            # pre[i] = all j in 1..i-1 are keych
    for i in range(2, L + 1): pre.append(z3.And(pre[i-1], keych(s[i-1])))
    simple = z3.And(z3.UGE(n, N(1)), z3.ULE(n, N(256)), first(s[0]),
                    z3.Or([z3.And(n == N(j), pre[j]) for j in range(1, min(256, L) + 1)]))
    multi = []
    for p in range(1, min(241, L - 2) + 1):
        sys_len_ok = z3.And(z3.UGE(n, N(p + 2)), z3.ULE(n, N(p + 15)))
        tail = [z3.Or(z3.ULE(n, N(i)), keych(s[i])) for i in range(p + 2, min(p + 15, L))]
        multi.append(z3.And(s[p] == z3.BitVecVal(64, 8), sys_len_ok, first(s[0]), pre[p], first(s[p+1]), *tail))
    return z3.Or(simple, z3.Or(multi))

def spec_ts_value(z3, s, n, L):
    chr_ = lambda c: z3.And(_cls(z3, c, [(0x20, 0x7e)]), c != z3.BitVecVal(ord(','), 8), c != z3.BitVecVal(ord('='), 8))
    nblk = lambda c: z3.And(chr_(c), c != z3.BitVecVal(0x20, 8))
    N = lambda v: z3.BitVecVal(v, 16)
    pre = [z3.BoolVal(True)]
    for i in range(1, L + 1): pre.append(z3.And(pre[i-1], chr_(s[i-1])))
    return z3.Or([z3.And(n == N(j), pre[j-1], nblk(s[j-1])) for j in range(1, min(256, L) + 1)])

def spec_instrument_name(z3, s, n, L):
    alpha = lambda c: _cls(z3, c, [(65, 90), (97, 122)])
    rest = lambda c: _cls(z3, c, [(65, 90), (97, 122), (48, 57)], (ord('_'), ord('.'), ord('-'), ord('/')))
    N = lambda v: z3.BitVecVal(v, 16)
    pre = [z3.BoolVal(True), z3.BoolVal(True)]
    for i in range(2, L + 1): pre.append(z3.And(pre[i-1], rest(s[i-1])))
    return z3.And(alpha(s[0]), z3.Or([z3.And(n == N(j), pre[j]) for j in range(1, min(255, L) + 1)]))

def spec_instrument_unit(z3, s, n, L):
    ok = lambda c: _cls(z3, c, [(1, 127)])
    N = lambda v: z3.BitVecVal(v, 16)
    pre = [z3.BoolVal(True)]
    for i in range(1, L + 1): pre.append(z3.And(pre[i-1], ok(s[i-1])))
    return z3.Or([z3.And(n == N(j), pre[j]) for j in range(0, min(63, L) + 1)])

REGEX_OBLIGATIONS = {
    'ts_key': (['reg_key', 'reg_key_multitenant'], 'spec_ts_key', 258),
    'ts_value': (['reg_value'], 'spec_ts_value', 258),
    'instrument_name': (['instrument_name'], 'spec_instrument_name', 258),
    'instrument_unit': (['instrument_unit'], 'spec_instrument_unit', 70),
}

def regex_engine(which, args, work):
    """run the re2smt equivalence queries in a python3-vt subprocess (z3 python API lives in that venv)"""
    import subprocess, json
    out = []
    for ob in which:
        L = REGEX_OBLIGATIONS[ob][2]
        if args.tier == 'quick' and L > 100: Lq = L
        p = subprocess.run(['python3-vt', os.path.join(VERIF, 'tools', 're_equiv.py'), ob], stdout=subprocess.PIPE, stderr=subprocess.PIPE, timeout=3000)
        try:
            r = json.loads(p.stdout.decode().strip().split('\n')[-1])
        except Exception:
            r = {'verdict': 'INCONCLUSIVE', 'detail': (p.stderr.decode() or p.stdout.decode())[-800:], 'sample': {'query': 'regex_equiv_' + ob, 'verdict': 'INCONCLUSIVE'}}
        if r.get('verdict') == 'SAT' and r.get('cex') is not None:
            d = os.path.join(VERIF, 'replays', args.pid); os.makedirs(d, exist_ok=True)
            path = os.path.join(d, 'regex_equiv_%s.json' % ob)
            json.dump({'property': args.pid, 'query': 'regex_equiv_' + ob, 'engine': 're2smt', 'counterexample_bytes_hex': r['cex'], 'label': r.get('label', '')}, open(path, 'w'), indent=1)
            r['replay'] = path
        out.append(r)
    return out

def patched_trace_state_limit(limit):
    """C14-Q4: scratch copy of trace_state.h with kMaxKeyValuePairs scaled (the only text edit of code under test);
    aborts unless exactly one line matches and the real value is 32"""
    def gen(workdir):
        import re
        src = open(TS_H).read()
        pat = re.compile(r'(static constexpr int kMaxKeyValuePairs\s*=\s*)(\d+)(;)')
        ms = pat.findall(src)
        if len(ms) != 1 or ms[0][1] != '32':
            raise RuntimeError('kMaxKeyValuePairs: expected exactly one definition with value 32, found %r' % (ms,))
        d = os.path.join(workdir, 'patched_inc', 'opentelemetry', 'trace')
        os.makedirs(d, exist_ok=True)
        open(os.path.join(d, 'trace_state.h'), 'w').write(pat.sub(r'\g<1>%d\g<3>' % limit, src))
        return [os.path.join(workdir, 'patched_inc')]
    return gen
