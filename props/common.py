"""shared pieces of the property specs"""
import os, sys
VERIF = os.path.dirname(os.path.dirname(os.path.abspath(__file__)))
sys.path.insert(0, os.path.join(VERIF, 'tools'))
import re2smt

REPO = os.environ.get('VERIF_REPO', '/repo')
TS_H = REPO + '/api/include/opentelemetry/trace/trace_state.h'
IMV_CC = REPO + '/sdk/src/metrics/instrument_metadata_validator.cc'

def regex_literals():
    return [
        ('reg_key', TS_H, 'reg_key'),
        ('reg_key_multitenant', TS_H, 'reg_key_multitenant'),
        ('reg_value', TS_H, 'reg_value'),
        ('instrument_name', IMV_CC, 'kInstrumentNamePattern'),
        ('instrument_unit', IMV_CC, 'kInstrumentUnitPattern'),
    ]

def gen_regex_tables(workdir):
    """regex_tables.c generated from the literals in the real source (every run)"""
    items = []
    for cname, path, var in regex_literals():
        pat = re2smt.extract(path, var)
        items.append((cname, re2smt.parse(pat)))
    p = os.path.join(workdir, 'regex_tables.c')
    open(p, 'w').write(re2smt.emit_c(items))
    return [p]

TS_OVERRIDES = ['_ZN13opentelemetry2v15trace10TraceState15IsValidKeyRegExENS0_5nostd11string_viewE',
                '_ZN13opentelemetry2v15trace10TraceState17IsValidValueRegExENS0_5nostd11string_viewE']
TS_MODELS = ['regex_model.c', 'tracestate_regex.c']
RE_UNWINDSET = {'re_match.0': 10, 're_match.1': 10, 're_match.2': 10, 're_match.3': 10, 're_match.4': 10, 're_match.5': 10}

SP_RELEASE = '_ZNSt16_Sp_counted_baseILN9__gnu_cxx12_Lock_policyE2EE10_M_releaseEv'
SP_LEAK_MODEL = 'sp_release_leak.c'
