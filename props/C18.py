import os, sys
sys.path.insert(0, os.path.dirname(os.path.abspath(__file__)))
from common import *
PROPERTY = 'C18'
def h(length):
    return dict(src='c18_env.cc', defines=['LEN=%d' % length, 'OTEL_INTERNAL_LOG_LEVEL=0'],
                models=['libc.c', 'cxxrt.c', 'stdstring.c', 'env_getenv.c', 'libc_strto.c'], native_models=['env_getenv.c'])
HARNESSES = {}
def qs(tag, L, tier):
    U = L + 3
    sh = 'every NUL-free string of length exactly %d' % L
    opt = ['accepted duration has the exact value', 'duration variable has the exact value', 'accepted uint variable has the exact value'] if L == 0 else []
    qs_ = _qs(tag, L, tier, U, sh)
    for q in qs_: q['optional_reach'] = opt
    return qs_
def _qs(tag, L, tier, U, sh):
    return [
      dict(name='timeout_from_string_len%d' % L, harness=tag, entry='h_timeout_from_string', unwind=U, tier=tier, timeout=900, solvers=['cadical', 'minisat'], shape=sh),
      dict(name='duration_env_len%d' % L, harness=tag, entry='h_duration_env', unwind=U, tier=tier, timeout=900, solvers=['cadical', 'minisat'], shape='unset or ' + sh + '; errno pre-state symbolic'),
      dict(name='uint_env_len%d' % L, harness=tag, entry='h_uint_env', unwind=U, tier=tier, timeout=900, shape='unset or ' + sh + '; errno pre-state symbolic'),
      dict(name='bool_env_len%d' % L, harness=tag, entry='h_bool_env', unwind=U, tier=tier, timeout=900, shape='unset or ' + sh),
      dict(name='float_env_len%d' % L, harness=tag, entry='h_float_env', unwind=U, tier=tier, timeout=900, shape='unset or ' + sh + '; strtof nondeterministic'),
    ]
QUERIES = []
# measured on the final tree (thorough tier, 16 cores): lengths 0..5 are decided in the 900 s budget for all five readers; from length 6
# the duration readers, and from length 9 the uint reader, get no verdict in 900 s - those lengths are not registered
for L in range(0, 11):
    HARNESSES['c18_%d' % L] = h(L)
    for q in qs('c18_%d' % L, L, 'quick' if L in (0, 2, 4) else 'thorough'):
        if L >= 6 and (q['name'].startswith('timeout_from_string_len') or q['name'].startswith('duration_env_len')): continue
        if L >= 9 and q['name'].startswith('uint_env_len'): continue
        QUERIES.append(q)
UNITS = [('', 1000000000), ('ns', 1), ('us', 1000), ('ms', 1000000), ('s', 1000000000), ('m', 60000000000), ('h', 3600000000000)]
for nd in (1, 3, 7, 10, 19):
    for (u, f) in UNITS:
        tag = 'c18_x_%d_%s' % (nd, u or 'none')
        HARNESSES[tag] = dict(h(4), defines=['LEN=4', 'OTEL_INTERNAL_LOG_LEVEL=0', 'NDIG=%d' % nd, 'NSP=%d' % (nd % 2), 'UNIT="%s"' % u, 'FACTOR=%dLL' % f])
        quick = (nd, u) in ((7, 'h'), (3, 'ms'), (10, ''), (19, 'ns'))
        QUERIES.append(dict(name='timeout_exact_%ddigits_%s' % (nd, u or 'nounit'), harness=tag, entry='h_timeout_exact', unwind=nd + 4, timeout=900,
                            tier='quick' if quick else 'thorough', solvers=['cadical', 'minisat'],
                            shape='%d space(s), %d symbolic digits, unit "%s"' % (nd % 2, nd, u)))
BOUNDS = ['environment strings of every length 0..5 for the duration readers, 0..8 for the uint reader, 0..10 for the bool and float readers (quick: 0, 2, 4), every byte symbolic, one query per length', 'exact duration value: fixed shapes of 1..19 digits x 7 units']
OUTSIDE = ['Resource::Create/Merge and OTELResourceDetector (istringstream, std::unordered_map): not encoded',
           'strtof value semantics (model returns arbitrary value/end/ERANGE; only the caller logic is checked)',
           'internal log statements compiled out with the SDK option OTEL_INTERNAL_LOG_LEVEL=0']
ASSUMPTIONS = ['strtoull modelled per C11 7.22.1.4 (models/libc_strto.c)', 'getenv returns a harness-owned buffer or NULL']
