import os, sys
sys.path.insert(0, os.path.dirname(os.path.abspath(__file__)))
from common import *
PROPERTY = 'C20'
def h(length):
    return dict(src='c20_nostd.cc', defines=['LEN=%d' % length], models=['libc.c', 'cxxrt.c', 'stdstring.c', 'hash_bytes.c', 'single_threaded.c'])
HARNESSES = {'c20_3': h(3), 'c20_6': h(6)}
def qs(tag, L, tier):
    U = L + 3
    return [
      dict(name='sv_compare_len%d' % L, harness=tag, entry='h_sv_compare', unwind=U, tier=tier, timeout=900, shape='all pairs of byte strings (incl. NUL) of length <= %d' % L),
      dict(name='sv_find_substr_len%d' % L, harness=tag, entry='h_sv_find_substr', unwind=U, tier=tier, timeout=900, shape='all byte strings <= %d, positions 0..%d, counts incl. npos' % (L, L + 2)),
      dict(name='sv_hash_len%d' % L, harness=tag, entry='h_sv_hash', unwind=max(U, 18), tier=tier, timeout=900, shape='all pairs of byte strings <= %d' % L),
      dict(name='span_len%d' % L, harness=tag, entry='h_span', unwind=U, tier=tier, timeout=900, shape='int arrays of length <= %d' % L),
    ]
QUERIES = qs('c20_3', 3, 'quick') + qs('c20_6', 6, 'thorough') + [
  dict(name='unique_ptr_script3', harness='c20_3', entry='h_unique_ptr', unwind=6, timeout=900, flags=['--memory-leak-check'], shape='3 symbolic ops from {move-assign,reset,reset(new),swap,release} over 2 handles, aliasing allowed for swap'),
  dict(name='shared_ptr_script2', harness='c20_3', entry='h_shared_ptr', unwind=6, rec_unwind=3, timeout=900, flags=['--memory-leak-check'], shape='2 symbolic ops from {copy-assign,move-assign,=nullptr,swap,assign-new} over 2 handles incl. self-assignment'),
  dict(name='variant_function_ref', harness='c20_3', entry='h_variant_function_ref', unwind=4, timeout=900, shape='3-alternative variant, symbolic values; function_ref over a capturing lambda'),
]
BOUNDS = ['strings <= 3 bytes (quick) / <= 6 bytes (thorough)', 'ownership scripts: 2 handles, <= 3 (unique) / 2 (shared) operations, <= 4 objects per side']
OUTSIDE = ['string_view::compare(pos,count,...) overloads beyond substr+compare composition', 'variant with non-trivial alternatives', 'weak_ptr interplay', 'std::span (C++20) itself: the oracle is an index-checked slice']
ASSUMPTIONS = ['__libc_single_threaded = 1 (single-thread harness)', 'operator new never fails', 'std::_Hash_bytes replaced by a deterministic stand-in']
