import os, sys
sys.path.insert(0, os.path.dirname(os.path.abspath(__file__)))
from common import *
PROPERTY = 'C08'
MODELS = ['libc.c', 'cxxrt.c', 'stdstring.c', 'sched.c', 'single_threaded.c', 'pthread_clock.c', SP_LEAK_MODEL, 'rbtree.c', 'hashtable_policy.c', 'hash_bytes.c']
def h(ne):
    return dict(src='c08_attrs.cc', defines=['NE=%d' % ne, 'OTEL_INTERNAL_LOG_LEVEL=0'], models=MODELS, overrides=[SP_RELEASE], ir2c_flags=['--new-array-max', '136'], model_defines=['VERIF_NEW_ARRAY_MAX=136'])
HARNESSES = {'c08_e2': h(2), 'c08_e3': h(3)}
HARNESSES['c08_e2_c'] = dict(h(2), defines=['NE=2', 'OTEL_INTERNAL_LOG_LEVEL=0', 'KEYS1=0,1', 'KEYS2=1,0', 'TYS=1,1,1', 'ALLOW=1,0,1', 'USE_FILTER=1'], opt_flags=['-S', '-passes=always-inline,function(mem2reg,simplifycfg),cgscc(inline),elim-avail-extern,globaldce,function(mem2reg,instsimplify,simplifycfg)'])
US = {'verif_mem': 70, '_Hash_bytes': 24, 'strlen': 24, 'memcmp': 24, 'memcpy': 24}
QUERIES = [
  dict(name='attr_identity_c', harness='c08_e2_c', entry='h_attr_identity', unwind=6, unwindset=US, timeout=300, tier='quick', shape='concrete keys probe'),
  dict(name='attr_identity_e2', harness='c08_e2', entry='h_attr_identity', unwind=6, unwindset=US, timeout=1200, tier='quick', shape='two lists of 2 attributes: keys symbolic over {a,bb,c}, values symbolic bool/int64, symbolic allow-list or no filter'),
  dict(name='attr_identity_e3', harness='c08_e3', entry='h_attr_identity', unwind=7, unwindset=US, timeout=2400, tier='thorough', shape='two lists of 3 attributes'),
]
BOUNDS = ['attribute lists of 2 (quick) / 3 (thorough) entries over 3 distinct keys of 1-2 bytes', 'bool and int64 values']
OUTSIDE = ['string / double / array valued attributes', 'hash quality (only equal => equal is decided; std::_Hash_bytes is a stand-in)']
ASSUMPTIONS = ['operator new never fails', 'std::_Rb_tree / _Prime_rehash_policy out-of-line parts are C ports (models/rbtree.c, models/hashtable_policy.c)']
