/* runtime vocabulary of generated C (ir2c.py output). Two flavours:
 *  - under CBMC (__CPROVER__): assertions/assumptions are solver obligations
 *  - native (gcc): used for translation validation; VERIF_* log and terminate   */
#ifndef VERIF_RT_H
#define VERIF_RT_H
#include <stdint.h>
#include <stddef.h>
#ifdef __CPROVER__
/* every harness assertion carries a reachability witness (assert(0) that must come back violated) */
#ifdef VERIF_NO_REACH
#define VERIF_ASSERT(c, lab) __CPROVER_assert((c), lab)
#else
#define VERIF_ASSERT(c, lab) do { __CPROVER_assert(0, "WITNESS reach: " lab); __CPROVER_assert((c), lab); } while (0)
#endif
#define VERIF_WITNESS_END() __CPROVER_assert(0, "WITNESS end of harness reachable")
#define VERIF_CHECK(c, lab) __CPROVER_assert((c), lab)   /* internal soundness check: no reachability witness */
#define VERIF_ASSUME(c) __CPROVER_assume(c)
#define VERIF_COVER(lab) __CPROVER_cover(1)
#define VERIF_UNREACHABLE() do { __CPROVER_assert(0, "UB: reached llvm unreachable"); __CPROVER_assume(0); } while (0)
#define VERIF_TRAP() do { __CPROVER_assert(0, "UB: llvm.trap"); __CPROVER_assume(0); } while (0)
#else
void verif_native_assert(int c, const char *lab);
void verif_native_assume(int c);
void verif_native_unreachable(const char *what);
#define VERIF_ASSERT(c, lab) verif_native_assert((c), lab)
#define VERIF_CHECK(c, lab) verif_native_assert((c), lab)
#define VERIF_WITNESS_END() ((void)0)
#define VERIF_ASSUME(c) verif_native_assume(c)
#define VERIF_COVER(lab) ((void)0)
#define VERIF_UNREACHABLE() verif_native_unreachable("unreachable")
#define VERIF_TRAP() verif_native_unreachable("trap")
#endif
void *malloc(size_t); void free(void *);
void *memcpy(void *, const void *, size_t);
void *memmove(void *, const void *, size_t);
void *memset(void *, int, size_t);
#define VERIF_MEMCPY(d, s, n) memcpy((d), (s), (size_t)(n))
#define VERIF_MEMMOVE(d, s, n) memmove((d), (s), (size_t)(n))
#define VERIF_MEMSET(d, c, n) verif_memset_v((d), (int)(c), (size_t)(n))
/* non-literal sizes: byte loops. CBMC's built-in memset/memcpy with a symbolic length is imprecise on typed
 * (struct) objects -- measured: memset(p, 0, n<<4) left pointer fields of a struct array non-zero. */
static inline void *verif_memset_v(void *d, int c, size_t n) {
  size_t i = 0;
#ifdef __CPROVER__
  /* zero fill of 8-byte aligned storage word by word: a field zeroed byte by byte (or by CBMC's built-in memset) is no longer a
   * constant for CBMC's constant propagation (measured: every later null test / CAS / counter comparison on such a field became
   * a symbolic branch and the batch processor queries exploded) */
  if (c == 0 && (__CPROVER_POINTER_OFFSET(d) & 7) == 0) for (; i + 8 <= n; i += 8) *(uint64_t *)((uint8_t *)d + i) = 0;
#endif
  for (; i < n; i++) ((uint8_t *)d)[i] = (uint8_t)c;
  return d; }
static inline void *verif_memcpy_v(void *d, const void *s, size_t n) { for (size_t i = 0; i < n; i++) ((uint8_t *)d)[i] = ((const uint8_t *)s)[i]; return d; }
static inline void *verif_memmove_v(void *d, const void *s, size_t n) {
  if ((uintptr_t)d <= (uintptr_t)s) for (size_t i = 0; i < n; i++) ((uint8_t *)d)[i] = ((const uint8_t *)s)[i];
  else for (size_t i = n; i > 0; i--) ((uint8_t *)d)[i - 1] = ((const uint8_t *)s)[i - 1];
  return d;
}
#define BITCAST(FT, TT, e) (((union { FT f; TT t; }){ .f = (e) }).t)
#define SEXT_ODD(e, w) ((int64_t)(((uint64_t)(e)) << (64 - (w))) >> (64 - (w)))
double fmod(double, double); double fabs(double); double floor(double); double ceil(double); double trunc(double);
double sqrt(double); double round(double); double rint(double); double nearbyint(double); double fmin(double, double);
double fmax(double, double); double copysign(double, double);
float fabsf(float); float floorf(float); float ceilf(float); float truncf(float);
static inline uint64_t verif_ctlz64(uint64_t x) { uint64_t n = 0; if (x == 0) return 64; while (!(x >> 63)) { x <<= 1; n++; } return n; }
static inline uint32_t verif_ctlz32(uint32_t x) { uint32_t n = 0; if (x == 0) return 32; while (!(x >> 31)) { x <<= 1; n++; } return n; }
static inline uint64_t verif_cttz64(uint64_t x) { uint64_t n = 0; if (x == 0) return 64; while (!(x & 1)) { x >>= 1; n++; } return n; }
static inline uint32_t verif_cttz32(uint32_t x) { uint32_t n = 0; if (x == 0) return 32; while (!(x & 1)) { x >>= 1; n++; } return n; }
static inline uint64_t verif_ctpop64(uint64_t x) { uint64_t n = 0; for (int i = 0; i < 64; i++) n += (x >> i) & 1; return n; }
static inline uint32_t verif_ctpop32(uint32_t x) { uint32_t n = 0; for (int i = 0; i < 32; i++) n += (x >> i) & 1; return n; }
static inline uint64_t verif_bswap64(uint64_t x) { return __builtin_bswap64(x); }
static inline uint32_t verif_bswap32(uint32_t x) { return __builtin_bswap32(x); }
static inline uint16_t verif_bswap16(uint16_t x) { return (uint16_t)((x << 8) | (x >> 8)); }
static inline uint64_t verif_fshl64(uint64_t a, uint64_t b, uint64_t s) { s &= 63; return s ? (a << s) | (b >> (64 - s)) : a; }
static inline uint64_t verif_fshr64(uint64_t a, uint64_t b, uint64_t s) { s &= 63; return s ? (a << (64 - s)) | (b >> s) : b; }
static inline uint32_t verif_fshl32(uint32_t a, uint32_t b, uint32_t s) { s &= 31; return s ? (a << s) | (b >> (32 - s)) : a; }
static inline uint32_t verif_fshr32(uint32_t a, uint32_t b, uint32_t s) { s &= 31; return s ? (a << (32 - s)) | (b >> s) : b; }
static inline uint64_t verif_usub_sat64(uint64_t a, uint64_t b) { return a > b ? a - b : 0; }
static inline uint64_t verif_uadd_sat64(uint64_t a, uint64_t b) { return a + b < a ? ~0ULL : a + b; }
static inline uint32_t verif_usub_sat32(uint32_t a, uint32_t b) { return a > b ? a - b : 0; }
static inline uint32_t verif_uadd_sat32(uint32_t a, uint32_t b) { return a + b < a ? ~0U : a + b; }
/* atomic hooks: bodies come from models/atomics_seq.c (sequential) or a rely/guarantee model */
#define AT_DECL(W) \
  uint##W##_t __at_load##W(uint##W##_t *p, int order); \
  void __at_store##W(uint##W##_t *p, uint##W##_t v, int order); \
  uint##W##_t __at_xchg##W(uint##W##_t *p, uint##W##_t v, int order); \
  uint##W##_t __at_add##W(uint##W##_t *p, uint##W##_t v, int order); \
  uint##W##_t __at_sub##W(uint##W##_t *p, uint##W##_t v, int order); \
  uint##W##_t __at_and##W(uint##W##_t *p, uint##W##_t v, int order); \
  uint##W##_t __at_or##W(uint##W##_t *p, uint##W##_t v, int order); \
  uint##W##_t __at_xor##W(uint##W##_t *p, uint##W##_t v, int order); \
  _Bool __at_cas##W(uint##W##_t *p, uint##W##_t *expected, uint##W##_t desired, int so, int fo, int weak);
AT_DECL(8) AT_DECL(16) AT_DECL(32) AT_DECL(64)
void __at_fence(int order);
/* atomics on pointer cells (std::atomic<T*>): pointer-typed so that provenance survives */
void *__at_loadp(void **p, int order); void __at_storep(void **p, void *v, int order); void *__at_xchgp(void **p, void *v, int order);
_Bool __at_casp(void **p, void **expected, void *desired, int so, int fo, int weak);
double __fp_mul_hook(double a, double b);
#endif
