// Native replay driver: feeds a recorded vector of nondet values (from a CBMC trace) to the
// natively compiled harness (g++ build of the same harness.cc against the real /repo code).
// usage: exe <entry> <vector-file>      vector file: one value per line "<type> <hex-bits>"
// exit: 0 = end reached, every assertion held; 10 = assertion failed; 11 = assumption violated
//       (vector diverged); 12 = vector exhausted / type mismatch (diverged); 13 = usage
#include <cstdint>
#include <cstdio>
#include <cstdlib>
#include <cstring>
#include <string>
#include <vector>
#include <dlfcn.h>
#include <unistd.h>
namespace {
struct Val { std::string type; uint64_t bits; };
std::vector<Val> g_vec; size_t g_pos = 0; int g_failed = 0;
bool g_exact = false;   // VERIF_EXACT: models run natively too (generated-C replay), nothing is skipped
uint64_t next(const char *type) {
  while (!g_exact && g_pos < g_vec.size() && g_vec[g_pos].type[0] == 'm') g_pos++;   // values consumed by models in the encoding
  if (g_pos >= g_vec.size()) { if (g_failed) { printf("vector ends after the failed assertion (%zu values)\n", g_pos); fflush(stdout); _exit(10); } printf("DIVERGED vector exhausted at %zu (%s)\n", g_pos, type); fflush(stdout); _exit(12); }
  const Val &v = g_vec[g_pos++];
  if (v.type != type) { printf("DIVERGED type mismatch at %zu: want %s have %s\n", g_pos - 1, type, v.type.c_str()); fflush(stdout); _exit(12); }
  return v.bits;
}
}
extern "C" {
__attribute__((weak)) unsigned verif_abort_expected = 0;   // CBMC-side flag (cxxrt.c); weak so the generated-C replay can link cxxrt.c
uint8_t nondet_u8() { return (uint8_t)next("u8"); }
uint16_t nondet_u16() { return (uint16_t)next("u16"); }
uint32_t nondet_u32() { return (uint32_t)next("u32"); }
uint64_t nondet_u64() { return next("u64"); }
double nondet_double() { uint64_t b = next("f64"); double d; memcpy(&d, &b, 8); return d; }
float nondet_float() { uint32_t b = (uint32_t)next("f32"); float d; memcpy(&d, &b, 4); return d; }
bool nondet_bool() { return next("u8") & 1; }
uint8_t nondet_model_u8() { return (uint8_t)next("mu8"); }
uint32_t nondet_model_u32() { return (uint32_t)next("mu32"); }
uint64_t nondet_model_u64() { return next("mu64"); }
double nondet_model_double() { uint64_t b = next("mf64"); double x; memcpy(&x, &b, 8); return x; }
void __VERIFIER_assert(bool c, const char *label) {
  if (!c) { printf("ASSERT-FAIL %s\n", label); fflush(stdout); g_failed++; }
}
void __VERIFIER_assume(bool c) {
  if (!c) { printf("ASSUME-VIOLATED after %zu values\n", g_pos); fflush(stdout); _exit(g_failed ? 10 : 11); }
}
void verif_native_assert(int c, const char *label) { __VERIFIER_assert(c != 0, label); }
void verif_native_assume(int c) { __VERIFIER_assume(c != 0); }
void verif_native_unreachable(const char *what) { printf("ASSERT-FAIL UB: reached %s\n", what); fflush(stdout); _exit(10); }
}
int main(int argc, char **argv) {
  if (argc < 3) return 13;
  g_exact = getenv("VERIF_EXACT") != nullptr;
  FILE *f = fopen(argv[2], "r");
  if (!f) return 13;
  char ty[16]; unsigned long long bits;
  while (fscanf(f, "%15s %llx", ty, &bits) == 2) g_vec.push_back({ty, bits});
  fclose(f);
  void (*fn)() = (void (*)())dlsym(RTLD_DEFAULT, argv[1]);
  if (!fn) { printf("no entry %s\n", argv[1]); return 13; }
  fn();
  while (!g_exact && g_pos < g_vec.size() && g_vec[g_pos].type[0] == 'm') g_pos++;
  printf("END consumed=%zu of %zu failed=%d\n", g_pos, g_vec.size(), g_failed);
  fflush(stdout);
  _exit(g_failed ? 10 : 0);
}
