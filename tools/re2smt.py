#!/usr/bin/env python3
"""re2smt.py -- the std::regex literals the pinned build uses as validators.

 * extract(path, varname): pull the C++ string literal that initialises `varname` out of the
   real source text (C++ escape processing included)
 * parse(pattern): ECMAScript subset -> sequence of (charclass[256], min, max) items
   (anchors ^ $, classes with ranges and \\xHH escapes, literals, trivial groups, {m,n} ? );
   anything else is a hard error
 * emit_c(tables): C tables for models/regex_model.c (the CBMC-side stand-in for std::regex_match,
   generated from the literal on every run, so a changed literal changes the model)
 * equivalent(items, spec, L): z3 (QF_BV) query  exists n<=L, bytes: items_accept != spec_accept
   over a fully symbolic byte string; returns (verdict, counterexample bytes, seconds)
Trusted: std::regex_match implements ECMAScript full match for this subset.
"""
import re, sys, time

class ReError(Exception):
    pass

def cxx_unescape(lit):
    """process C++ escapes in the body of a (non-raw) string literal"""
    out = []; i = 0
    while i < len(lit):
        c = lit[i]
        if c != '\\':
            out.append(ord(c)); i += 1; continue
        i += 1; c = lit[i]
        simple = {'n': 10, 't': 9, 'r': 13, '0': 0, '\\': 92, '"': 34, "'": 39, 'a': 7, 'b': 8, 'f': 12, 'v': 11, '?': 63}
        if c == 'x':
            j = i + 1
            while j < len(lit) and lit[j] in '0123456789abcdefABCDEF': j += 1
            out.append(int(lit[i+1:j], 16) & 255); i = j; continue
        if c in '01234567':
            j = i
            while j < len(lit) and j < i + 3 and lit[j] in '01234567': j += 1
            out.append(int(lit[i:j], 8) & 255); i = j; continue
        if c in simple:
            out.append(simple[c]); i += 1; continue
        raise ReError('C++ escape \\' + c)
    return bytes(out).decode('latin1')

def extract(path, varname):
    """find  `varname("...")`  or  `varname{"..."}` or `varname = "..."` possibly split over adjacent literals"""
    src = open(path, encoding='latin1').read()
    m = re.search(r'\b' + re.escape(varname) + r'\s*(?:\(|\{|=)\s*((?:"(?:[^"\\]|\\.)*"\s*)+)', src)
    if not m: raise ReError('literal for %s not found in %s' % (varname, path))
    parts = re.findall(r'"((?:[^"\\]|\\.)*)"', m.group(1))
    return cxx_unescape(''.join(parts))

def parse(pat):
    """-> list of (set_of_bytes, min, max)"""
    i = 0; n = len(pat); items = []
    # regex_match is a full match: leading ^ / trailing $ are redundant
    i = 1 if pat.startswith('^') else 0
    end = n - 1 if pat.endswith('$') else n
    def parse_class(i):
        # pat[i] == '['
        i += 1; neg = False
        if pat[i] == '^': neg = True; i += 1
        s = set(); first = True
        def one(i):
            c = pat[i]
            if c == '\\':
                d = pat[i+1]
                if d == 'x': return int(pat[i+2:i+4], 16), i + 4
                if d in '-\\]/.[^$*+?(){}|': return ord(d), i + 2
                if d == 'd': return ('set', set(range(48, 58))), i + 2
                if d == 'w': return ('set', set(range(48, 58)) | set(range(65, 91)) | set(range(97, 123)) | {95}), i + 2
                raise ReError('class escape \\' + d)
            return ord(c), i + 1
        while pat[i] != ']' or first:
            first = False
            a, i = one(i)
            if isinstance(a, tuple):
                s |= a[1]; continue
            if pat[i] == '-' and pat[i+1] != ']':
                b, i = one(i + 1)
                if isinstance(b, tuple) or b < a: raise ReError('bad range')
                s |= set(range(a, b + 1))
            else:
                s.add(a)
        if neg: s = set(range(256)) - s
        return s, i + 1
    def parse_atom(i):
        c = pat[i]
        if c == '[': return parse_class(i)
        if c == '(':
            j = pat.index(')', i)
            inner = pat[i+1:j]
            if inner.startswith('?:'): inner = inner[2:]
            if len(inner) == 1 and inner not in '\\[](){}|*+?.':
                return {ord(inner)}, j + 1
            raise ReError('only single-literal groups supported: (' + inner + ')')
        if c == '\\':
            d = pat[i+1]
            if d == 'x': return {int(pat[i+2:i+4], 16)}, i + 4
            if d in '-\\]/.[^$*+?(){}|': return {ord(d)}, i + 2
            raise ReError('escape \\' + d)
        if c == '.': return set(range(256)) - {10, 13}, i + 1
        if c in '*+?{}|)$^': raise ReError('unexpected ' + c)
        return {ord(c)}, i + 1
    while i < end:
        s, i = parse_atom(i)
        lo = hi = 1
        if i < end and pat[i] == '{':
            j = pat.index('}', i)
            q = pat[i+1:j]
            if ',' in q:
                a, b = q.split(',')
                if b == '': raise ReError('unbounded {m,}')
                lo, hi = int(a), int(b)
            else:
                lo = hi = int(q)
            i = j + 1
        elif i < end and pat[i] == '?':
            lo, hi = 0, 1; i += 1
        elif i < end and pat[i] in '*+':
            raise ReError('unbounded quantifier ' + pat[i])
        if i < end and pat[i] == '?': raise ReError('lazy quantifier')
        items.append((frozenset(s), lo, hi))
    return items

def match_py(items, bs):
    """reference matcher in python (used to validate the encoder and the C model)"""
    n = len(bs)
    reach = [j == 0 for j in range(n + 1)]
    for (cls, lo, hi) in items:
        run = [0] * (n + 1)
        for j in range(1, n + 1): run[j] = run[j-1] + 1 if bs[j-1] in cls else 0
        nr = [False] * (n + 1)
        for j in range(n + 1):
            for k in range(lo, min(hi, j) + 1):
                if reach[j-k] and run[j] >= k: nr[j] = True; break
        reach = nr
    return reach[n]

def emit_c(name_items, patterns=None):
    """name_items: list of (c_name, items). returns C source of tables"""
    out = ['/* generated by re2smt.py from the regex literals in the real source -- do not edit */',
           '#include "regex_model.h"']
    for cname, pat in (patterns or {}).items():
        bs = pat.encode('latin1')
        out.append('const unsigned char %s_pattern[] = {%s};' % (cname, ','.join(map(str, bs)) or '0'))
        out.append('const unsigned %s_pattern_len = %d;' % (cname, len(bs)))
    for cname, items in name_items:
        for k, (cls, lo, hi) in enumerate(items):
            bits = ','.join('1' if b in cls else '0' for b in range(256))
            out.append('static const unsigned char %s_cls%d[256] = {%s};' % (cname, k, bits))
        out.append('const struct re_item %s_items[] = {%s};' % (cname, ', '.join('{%s_cls%d, %d, %d}' % (cname, k, lo, hi) for k, (cls, lo, hi) in enumerate(items))))
        out.append('const unsigned %s_nitems = %d;' % (cname, len(items)))
    return '\n'.join(out) + '\n'

# ----------------------------------------------------------------------------- z3 side
def z3_accepts(z3, items, s, n, L):
    """boolean term: the item sequence fully matches s[0..n)"""
    BV = lambda v, w=16: z3.BitVecVal(v, w)
    def inclass(cls, ch):
        # ranges
        xs = sorted(cls); rngs = []
        for x in xs:
            if rngs and rngs[-1][1] == x - 1: rngs[-1][1] = x
            else: rngs.append([x, x])
        return z3.Or([z3.And(z3.UGE(ch, z3.BitVecVal(a, 8)), z3.ULE(ch, z3.BitVecVal(b, 8))) if a != b else ch == z3.BitVecVal(a, 8) for a, b in rngs]) if rngs else z3.BoolVal(False)
    reach = [z3.BoolVal(j == 0) for j in range(L + 1)]
    for (cls, lo, hi) in items:
        run = [BV(0)]
        for j in range(1, L + 1):
            run.append(z3.If(inclass(cls, s[j-1]), run[j-1] + BV(1), BV(0)))
        nr = []
        for j in range(L + 1):
            terms = []
            for k in range(lo, min(hi, j) + 1):
                terms.append(z3.And(reach[j-k], z3.UGE(run[j], BV(k))))
            nr.append(z3.Or(terms) if terms else z3.BoolVal(False))
        reach = nr
    # select reach[n]
    return z3.Or([z3.And(n == z3.BitVecVal(j, 16), reach[j]) for j in range(L + 1)])

def equivalent(alternatives, spec_fn, L, timeout_s=600):
    """alternatives: list of item-sequences (accept if any matches). spec_fn(z3, s, n, L) -> Bool.
    returns (verdict 'UNSAT'|'SAT'|'UNKNOWN', cex bytes or None, seconds, stats)"""
    import z3
    t0 = time.time()
    s = [z3.BitVec('s%d' % i, 8) for i in range(L)]
    n = z3.BitVec('n', 16)
    sol = z3.SolverFor('QF_BV')
    sol.set('timeout', int(timeout_s * 1000))
    sol.add(z3.ULE(n, z3.BitVecVal(L, 16)))
    impl = z3.Or([z3_accepts(z3, it, s, n, L) for it in alternatives])
    spec = spec_fn(z3, s, n, L)
    sol.add(impl != spec)
    r = sol.check()
    dt = time.time() - t0
    if r == z3.unsat: return 'UNSAT', None, dt, {}
    if r == z3.sat:
        m = sol.model()
        nn = m.eval(n, model_completion=True).as_long()
        bs = bytes(m.eval(s[i], model_completion=True).as_long() for i in range(nn))
        return 'SAT', bs, dt, {'impl_accepts': bool(z3.is_true(m.eval(impl, model_completion=True)))}
    return 'UNKNOWN', None, dt, {'reason': sol.reason_unknown()}

def witness(alternatives, spec_fn, L):
    """vacuity guard: both an accepted and a rejected string must exist (returns True if so)"""
    import z3
    s = [z3.BitVec('s%d' % i, 8) for i in range(L)]
    n = z3.BitVec('n', 16)
    impl = z3.Or([z3_accepts(z3, it, s, n, L) for it in alternatives])
    ok = True
    for want in (True, False):
        sol = z3.SolverFor('QF_BV'); sol.add(z3.ULE(n, z3.BitVecVal(L, 16))); sol.add(impl == want)
        if sol.check() != z3.sat: ok = False
    return ok

if __name__ == '__main__':
    pat = extract(sys.argv[1], sys.argv[2])
    print(repr(pat)); its = parse(pat)
    for c, lo, hi in its: print(sorted(c)[:4], '...', len(c), lo, hi)
