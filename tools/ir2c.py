#!/usr/bin/env python3
"""ir2c.py -- LLVM-14 textual IR (typed pointers) -> C, one C statement per IR instruction.

Usage: ir2c.py in.ll -o out.c --entry h_foo [--entry h_bar] [--override SYM] [--no-nsw]

* Only functions/globals reachable from the entry points are emitted; functions listed with
  --override are emitted as prototypes only (a C model supplies the body) and are not traversed.
* Named IR structs become C structs with the same field sequence (f0,f1,...), arrays become
  struct-wrapped C arrays ({T a[N];}), so x86-64 layout is identical to the real build.
* Atomic instructions become calls to __at_* hooks; __VERIFIER_assert(c, "lit") becomes
  __CPROVER_assert-style VERIF_ASSERT(c, "lit") with the literal resolved here.
* Anything not understood is a hard error naming the instruction; nothing is dropped silently
  except the no-op intrinsics listed in NOP_INTRINSICS.
"""
import re, sys, struct, argparse, os

class IRError(Exception):
    pass

# ----------------------------------------------------------------------------- lexer
TOK_RE = re.compile(r'''
   (?P<ws>\s+)
 | (?P<comment>;[^\n]*)
 | (?P<cstr>c"(?:[^"])*")
 | (?P<local>%(?:"[^"]*"|[-a-zA-Z$._0-9]+))
 | (?P<glob>@(?:"[^"]*"|[-a-zA-Z$._0-9]+))
 | (?P<str>"[^"]*")
 | (?P<md>![-a-zA-Z$._0-9]*)
 | (?P<attr>\#\d+)
 | (?P<comdat>\$(?:"[^"]*"|[-a-zA-Z$._0-9]+))
 | (?P<hex>0x[KMLHR]?[0-9A-Fa-f]+)
 | (?P<num>-?\d+(?:\.\d+(?:[eE][-+]?\d+)?)?)
 | (?P<dots>\.\.\.)
 | (?P<ident>[a-zA-Z_][a-zA-Z0-9_.]*)
 | (?P<punct>[(){}\[\]<>,=*|:])
''', re.X)

def lex(s):
    toks = []
    pos = 0
    n = len(s)
    while pos < n:
        m = TOK_RE.match(s, pos)
        if not m:
            raise IRError('lex error at: ' + s[pos:pos+40])
        k = m.lastgroup
        if k not in ('ws', 'comment'):
            toks.append((k, m.group(k)))
        pos = m.end()
    return toks

# ----------------------------------------------------------------------------- types
# ('int',N) ('float',) ('double',) ('void',) ('ptr',T) ('struct',name) ('lstruct',fields,packed)
# ('array',N,T) ('func',ret,params,vararg) ('vec',N,T) ('label',) ('metadata',) ('fp80',)
VOID = ('void',); I1 = ('int', 1); I8 = ('int', 8); I32 = ('int', 32); I64 = ('int', 64)
def PTR(t): return ('ptr', t)

class Module:
    def __init__(self):
        self.structs = {}      # name -> (fields|None, packed)
        self.globals = {}      # name -> dict
        self.funcs = {}        # name -> dict
        self.aliases = {}      # name -> (type, target const expr tokens)
        self.order = []

class P:
    """token cursor with IR type/value parsers"""
    def __init__(self, toks, mod):
        self.t = toks; self.i = 0; self.mod = mod
    def peek(self, k=0):
        j = self.i + k
        return self.t[j] if j < len(self.t) else ('eof', '')
    def next(self):
        tk = self.peek(); self.i += 1; return tk
    def at(self, v):
        return self.peek()[1] == v and self.peek()[0] not in ('str', 'cstr')
    def accept(self, v):
        if self.at(v):
            self.i += 1; return True
        return False
    def expect(self, v):
        if not self.accept(v):
            raise IRError('expected %r got %r in: %s' % (v, self.peek(), self.text()))
    def text(self):
        return ' '.join(x[1] for x in self.t)
    def eof(self):
        return self.i >= len(self.t)

    # ---- types
    def parse_type(self):
        k, v = self.next()
        if k == 'ident':
            m = re.fullmatch(r'i(\d+)', v)
            if m: t = ('int', int(m.group(1)))
            elif v == 'void': t = VOID
            elif v == 'float': t = ('float',)
            elif v == 'double': t = ('double',)
            elif v == 'x86_fp80': t = ('fp80',)
            elif v == 'label': t = ('label',)
            elif v == 'metadata': t = ('metadata',)
            elif v == 'opaque': t = ('opaque',)
            elif v == 'ptr': raise IRError('opaque pointers not supported')
            else: raise IRError('unknown type %s in %s' % (v, self.text()))
        elif k == 'local':
            t = ('struct', v[1:].strip('"'))
        elif v == '{':
            t = ('lstruct', tuple(self._type_list('}')), False)
        elif v == '<':
            if self.at('{'):
                self.next()
                fs = tuple(self._type_list('}'))
                self.expect('>')
                t = ('lstruct', fs, True)
            else:
                n = int(self.next()[1]); self.expect_ident('x'); et = self.parse_type(); self.expect('>')
                t = ('vec', n, et)
        elif v == '[':
            n = int(self.next()[1]); self.expect_ident('x'); et = self.parse_type(); self.expect(']')
            t = ('array', n, et)
        else:
            raise IRError('bad type token %r in %s' % (v, self.text()))
        # suffixes
        while True:
            if self.at('*'):
                self.next(); t = PTR(t)
            elif self.at('(') and self._looks_like_functype():
                self.next()
                ps = []; va = False
                while not self.at(')'):
                    if self.peek()[0] == 'dots':
                        self.next(); va = True
                    else:
                        ps.append(self.parse_type())
                        self._skip_param_attrs()
                    if not self.accept(','): break
                self.expect(')')
                t = ('func', t, tuple(ps), va)
            elif self.at('addrspace'):
                raise IRError('addrspace')
            else:
                break
        return t
    def expect_ident(self, v):
        k, x = self.next()
        if x != v: raise IRError('expected %s got %s' % (v, x))
    def _looks_like_functype(self):
        # a '(' after a type begins a function type iff the matching ')' is followed by '*'
        d = 0; j = self.i
        while j < len(self.t):
            v = self.t[j][1]
            if self.t[j][0] in ('str', 'cstr'): j += 1; continue
            if v == '(': d += 1
            elif v == ')':
                d -= 1
                if d == 0:
                    return j + 1 < len(self.t) and self.t[j+1][1] == '*'
            j += 1
        return False
    def _type_list(self, close):
        r = []
        if self.accept(close): return r
        while True:
            r.append(self.parse_type())
            if self.accept(close): return r
            self.expect(',')
    PARAM_ATTRS = {'noundef','zeroext','signext','nocapture','writeonly','readonly','readnone','nonnull','noalias',
                   'returned','immarg','nofree','inreg','nest','swiftself','swifterror','nosync','noreturn','inrange',
                   'nocallback'}
    def _skip_param_attrs(self):
        """skip parameter attributes; returns dict with byval/sret info"""
        info = {}
        while True:
            k, v = self.peek()
            if k != 'ident': break
            if v in self.PARAM_ATTRS:
                self.next()
            elif v in ('align', 'dereferenceable', 'dereferenceable_or_null'):
                self.next()
                if self.accept('('):
                    self.next(); self.expect(')')
                else:
                    self.next()
            elif v in ('byval', 'sret', 'byref', 'preallocated', 'inalloca', 'elementtype'):
                self.next(); self.expect('('); ty = self.parse_type(); self.expect(')')
                info[v] = ty
            else:
                break
        return info

# ----------------------------------------------------------------------------- C naming/typing
class CG:
    def __init__(self, mod, opts):
        self.mod = mod; self.opts = opts
        self.struct_ids = {}; self.lstruct_ids = {}; self.array_ids = {}; self.func_ids = {}
        self.type_decl_order = []    # completed composite types in dependency order
        self._emitting = set()
        self.gnames = {}; self._used_gn = set()
        self.out_types = []
        self.union_cids = set()
        # nostd::shared_ptr<X>::PlacementBuffer = { [N x i8] } always holds a shared_ptr_wrapper (placement new):
        # declare the memory with that type (+ padding) so CBMC keeps the vptr / pointers as typed fields
        # instead of byte arrays. Same size and layout (checked with _Static_assert in the output).
        self.retyped = {}
        import os as _os
        # std::string's SSO union { i64 capacity; [8 x i8] } (third member of basic_string<char>): declared as 16 plain bytes.
        # The characters live there; as a pointer/word-typed slot every character read was a byte_extract from a word that CBMC
        # does not fold (measured: a std::map<std::string,int> with two concrete keys did not finish symbolic execution).
        self.sso_unions = set()
        for name, ent in ([] if _os.environ.get('IR2C_NO_SSO') else mod.structs.items()):
            if name.startswith('class.std::__cxx11::basic_string') and ent[0] is not None and len(ent[0]) == 3 and ent[0][2][0] == 'struct' and ent[0][2][1].startswith('union.'):
                u = mod.structs.get(ent[0][2][1])
                if u and u[0] is not None and list(u[0]) == [('int', 64), ('array', 8, ('int', 8))]:
                    self.sso_unions.add(ent[0][2][1])
        for name, ent in ([] if _os.environ.get('IR2C_NO_RETYPE') else mod.structs.items()):
            if name.endswith('::PlacementBuffer') and ent[0] is not None and len(ent[0]) == 1 and ent[0][0][0] == 'array' \
               and ent[0][0][2] == ('int', 8) and 'nostd::shared_ptr<' in name:
                w = name.replace('struct.', 'class.', 1)[:-len('::PlacementBuffer')] + '::shared_ptr_wrapper'
                if w in mod.structs and mod.structs[w][0] is not None:
                    self.retyped[name] = (('struct', w), ent[0][0][1])
        # generic rule: a named struct that is (a chain of single-member wrappers around) a byte array and that the
        # module only ever reinterprets as ONE struct type T (e.g. __gnu_cxx::__aligned_buffer<T> inside make_shared's
        # control block) is declared as { T; padding }
        def byte_leaf(t, depth=0):
            if depth > 6: return None
            if t[0] == 'array' and t[2] == ('int', 8): return t[1]
            if t[0] == 'struct':
                e = mod.structs.get(t[1])
                if e and e[0] is not None and len(e[0]) == 1: return byte_leaf(e[0][0], depth + 1)
            if t[0] == 'lstruct' and len(t[1]) == 1: return byte_leaf(t[1][0], depth + 1)
            return None
        cands = {}
        for name, ent in ([] if _os.environ.get('IR2C_NO_RETYPE') else mod.structs.items()):
            if name in self.retyped or ent[0] is None or len(ent[0]) != 1: continue
            if 'aligned_buffer' not in name and 'aligned_membuf' not in name: continue
            n = byte_leaf(('struct', name))
            if n: cands[name] = n
        if cands and getattr(mod, 'text', None):
            pat = re.compile(r'bitcast (%(?:"[^"]*"|[-a-zA-Z$._0-9]+))\* %\S+ to (%(?:"[^"]*"|[-a-zA-Z$._0-9]+))\*')
            targets = {}
            for m in pat.finditer(mod.text):
                sname = m.group(1)[1:].strip('"'); tname = m.group(2)[1:].strip('"')
                if sname in cands: targets.setdefault(sname, set()).add(tname)
            for sname, ts in targets.items():
                ts = {t for t in ts if t in mod.structs and mod.structs[t][0] is not None}
                if len(ts) == 1:
                    self.retyped[sname] = (('struct', list(ts)[0]), cands[sname])
        # make_shared: std::_Sp_counted_ptr_inplace<T, ...>::_Impl = { __aligned_buffer<T> }: T is in the struct's NAME
        for name, ent in ([] if _os.environ.get('IR2C_NO_RETYPE') else mod.structs.items()):
            m = re.match(r'class\.std::_Sp_counted_ptr_inplace<(.+), std::allocator<void>, [^>]*>::_Impl$', name)
            if not m or ent[0] is None or len(ent[0]) != 1 or ent[0][0][0] != 'struct' or ent[0][0][1] not in cands: continue
            for pref in ('struct.', 'class.'):
                tn = pref + m.group(1)
                if tn in mod.structs and mod.structs[tn][0] is not None:
                    self.retyped[ent[0][0][1]] = (('struct', tn), cands[ent[0][0][1]])
    def gname(self, g):
        g = g.strip('"') if not g.startswith('@') else g[1:].strip('"')
        if g in self.gnames: return self.gnames[g]
        c = re.sub(r'[^A-Za-z0-9_]', '_', g)
        if not re.match(r'[A-Za-z_]', c): c = 'g_' + c
        if c.startswith('_str') or c.startswith('__const') or c.startswith('switch_table'): c = 'g' + c
        base = c; k = 1
        while c in self._used_gn:
            k += 1; c = '%s_%d' % (base, k)
        self._used_gn.add(c); self.gnames[g] = c
        return c
    # ---- C type names
    def ctype(self, t):
        k = t[0]
        if k == 'int':
            n = t[1]
            if n == 1: return '_Bool'
            for w in (8, 16, 32, 64):
                if n <= w: return 'uint%d_t' % w
            if n <= 128: return 'u128_t'
            raise IRError('int width %d' % n)
        if k == 'float': return 'float'
        if k == 'double': return 'double'
        if k == 'fp80': return 'long double'
        if k == 'void': return 'void'
        if k == 'ptr':
            e = t[1]
            if e[0] == 'func': return self.functype_name(e)
            if e[0] == 'void': return 'void*'
            return self.ctype(e) + '*'
        if k == 'struct': return self.struct_name(t[1])
        if k == 'lstruct': return self.lstruct_name(t)
        if k == 'array': return self.array_name(t)
        if k == 'opaque': return 'void'
        if k == 'metadata': return 'int'
        raise IRError('ctype of %r' % (t,))
    def sctype(self, t):
        n = t[1]
        if n == 1: return '_Bool'
        for w in (8, 16, 32, 64):
            if n <= w: return 'int%d_t' % w
        return 'i128_t'
    def is_union_slot(self, sname, ftype):
        """clang represents a C++ union as a struct named union.* whose first member stands for all alternatives;
        an 8-byte double/i64 member there may hold a pointer: declare it pointer-typed so CBMC keeps provenance"""
        return sname.startswith('union.') and sname not in self.sso_unions and ftype in (('double',), ('int', 64))
    def struct_name(self, name):
        if name not in self.struct_ids:
            cid = 'struct S%d_%s' % (len(self.struct_ids), re.sub(r'[^A-Za-z0-9]', '_', name)[:40])
            self.struct_ids[name] = cid
            if name.startswith('union.'): self.union_cids.add(cid)
            self._define_struct(name)
        return self.struct_ids[name]
    def _define_struct(self, name):
        ent = self.mod.structs.get(name)
        cid = self.struct_ids[name]
        if ent is None or ent[0] is None:
            self.out_types.append(('fwd', cid)); return
        fields, packed = ent
        self.out_types.append(('fwd', cid))
        self._pending_defs = getattr(self, '_pending_defs', [])
        if name in self.retyped:
            wt, n = self.retyped[name]
            self._pending_defs.append((cid, ('RETYPED', wt, n), packed))
            return
        if name in self.sso_unions:
            self._pending_defs.append((cid, ('SSO',), packed))
            return
        self._pending_defs.append((cid, fields, packed))
    def lstruct_name(self, t):
        if t not in self.lstruct_ids:
            cid = 'struct L%d' % len(self.lstruct_ids)
            self.lstruct_ids[t] = cid
            self.out_types.append(('fwd', cid))
            self._pending_defs = getattr(self, '_pending_defs', [])
            self._pending_defs.append((cid, t[1], t[2]))
        return self.lstruct_ids[t]
    def array_name(self, t):
        if t not in self.array_ids:
            cid = 'struct A%d' % len(self.array_ids)
            self.array_ids[t] = cid
            self.out_types.append(('fwd', cid))
            self._pending_defs = getattr(self, '_pending_defs', [])
            self._pending_defs.append((cid, ('ARRAY', t[1], t[2]), False))
        return self.array_ids[t]
    def functype_name(self, ft):
        if ft not in self.func_ids:
            cid = 'fn%d_t' % len(self.func_ids)
            self.func_ids[ft] = cid
            # typedef emitted later (needs param types registered first)
            ret = self.ctype(ft[1]); ps = [self.ctype(p) for p in ft[2]]
            if ft[3] and ps: ps.append('...')
            if not ps: ps = [] if ft[3] else ['void']
            self.out_types.append(('typedef', 'typedef %s (*%s)(%s);' % (ret, cid, ', '.join(ps))))
        return self.func_ids[ft]
    def flush_type_defs(self):
        """emit all pending composite definitions in by-value dependency order"""
        defs = {}
        # registering field types may add more pending defs; iterate to fixpoint
        done_fields = {}
        while getattr(self, '_pending_defs', []):
            cid, fields, packed = self._pending_defs.pop()
            if fields and fields[0] == 'ARRAY':
                el = self.ctype(fields[2]); done_fields[cid] = ('ARRAY', fields[1], el, fields[2])
            elif fields and fields[0] == 'RETYPED':
                done_fields[cid] = ('RETYPED', self.ctype(fields[1]), fields[1], fields[2])
            elif fields and fields[0] == 'SSO':
                done_fields[cid] = ('SSO',)
            else:
                uni = cid in self.union_cids
                done_fields[cid] = ('STRUCT', [(('void*' if uni and f in (('double',), ('int', 64)) else self.ctype(f)), f) for f in fields], packed)
        self._all_defs = getattr(self, '_all_defs', {})
        self._all_defs.update(done_fields)
    def byvalue_deps(self, t):
        k = t[0]
        if k == 'struct':
            ent = self.mod.structs.get(t[1])
            return [self.struct_ids[t[1]]] if ent and ent[0] is not None else []
        if k == 'lstruct': return [self.lstruct_ids[t]]
        if k == 'array': return [self.array_ids[t]]
        return []
    def emit_types(self):
        self.flush_type_defs()
        lines = []; fwd = []
        for kind, x in self.out_types:
            if kind == 'fwd': fwd.append('%s;' % x)
        emitted = set(); order = []
        defs = self._all_defs
        def visit(cid, stack=()):
            if cid in emitted: return
            if cid in stack: raise IRError('recursive by-value type ' + cid)
            d = defs.get(cid)
            if d is None: return
            if d[0] == 'SSO':
                pass
            elif d[0] == 'ARRAY':
                for dep in self.byvalue_deps(d[3]): visit(dep, stack + (cid,))
            elif d[0] == 'RETYPED':
                for dep in self.byvalue_deps(d[2]): visit(dep, stack + (cid,))
            else:
                for _, ft in d[1]:
                    for dep in self.byvalue_deps(ft): visit(dep, stack + (cid,))
            emitted.add(cid); order.append(cid)
        for cid in list(defs): visit(cid)
        for cid in order:
            d = defs[cid]
            if d[0] == 'SSO':
                lines.append('%s { uint8_t a[16]; };' % cid)
            elif d[0] == 'ARRAY':
                n = d[1]
                lines.append('%s { %s a[%d]; };' % (cid, d[2], n if n > 0 else 0))
            elif d[0] == 'RETYPED':
                lines.append('%s { %s f0; uint8_t pad[%d - sizeof(%s)]; }; _Static_assert(sizeof(%s) == %d, "retyped placement buffer size");'
                             % (cid, d[1], d[3], d[1], cid, d[3]))
            else:
                fs = ' '.join('%s f%d;' % (ct, i) for i, (ct, _) in enumerate(d[1]))
                lines.append('%s { %s }%s;' % (cid, fs, ' __attribute__((packed))' if d[2] else ''))
        # typedefs for function pointer types come after forward decls of structs (pointers only need fwd)
        tds = [x for kind, x in self.out_types if kind == 'typedef']
        return fwd, tds, lines

def toks_addr_name(toks):
    """SSA name of the address operand of a load instruction (token list), or None"""
    names = [x[1] for x in toks if x[0] == 'local']
    return names[1] if len(names) >= 2 else None

# ----------------------------------------------------------------------------- module parsing
LINKAGE = {'private','internal','available_externally','linkonce','weak','common','appending','extern_weak',
           'linkonce_odr','weak_odr','external','dso_local','dso_preemptable','default','hidden','protected',
           'dllimport','dllexport','unnamed_addr','local_unnamed_addr','externally_initialized','thread_local',
           'localdynamic','initialexec','localexec'}
FN_PRE = LINKAGE | {'noundef','zeroext','signext','noalias','nonnull','ccc','fastcc','coldcc','align','dereferenceable',
                    'dereferenceable_or_null'}

def join_multiline(lines):
    out = []; acc = None
    for l in lines:
        if acc is not None:
            acc += ' ' + l.strip()
            if l.strip().startswith(']'):
                out.append(acc); acc = None
            continue
        s = l.rstrip()
        if re.match(r'\s*switch .*\[\s*$', s):
            acc = s; continue
        out.append(s)
    return out

def parse_module(text):
    mod = Module(); mod.text = text
    lines = join_multiline(text.splitlines())
    i = 0; n = len(lines)
    # pass 1: struct types (needed before anything else)
    for l in lines:
        m = re.match(r'(%(?:"[^"]*"|[-a-zA-Z$._0-9]+)) = type (.*)$', l)
        if m:
            name = m.group(1)[1:].strip('"')
            body = m.group(2).strip()
            if body == 'opaque':
                mod.structs[name] = (None, False)
            else:
                p = P(lex(body), mod)
                t = p.parse_type()
                if t[0] != 'lstruct': raise IRError('type def ' + l)
                mod.structs[name] = (t[1], t[2])
    while i < n:
        l = lines[i]
        if l.startswith('define '):
            body = []; j = i + 1
            while lines[j] != '}':
                body.append(lines[j]); j += 1
            f = parse_fn_header(l, mod, True); f['body'] = body
            mod.funcs[f['name']] = f
            i = j + 1; continue
        if l.startswith('declare '):
            f = parse_fn_header(l, mod, False); f['body'] = None
            if f['name'] not in mod.funcs: mod.funcs[f['name']] = f
        elif l.startswith('@'):
            parse_global(l, mod)
        i += 1
    return mod

def parse_fn_header(l, mod, is_def):
    toks = lex(l)
    p = P(toks, mod)
    p.next()  # define/declare
    while True:
        k, v = p.peek()
        if k == 'ident' and v in FN_PRE:
            p.next()
            if v in ('align',): p.next()
            if v in ('dereferenceable', 'dereferenceable_or_null'):
                p.expect('('); p.next(); p.expect(')')
            if v == 'thread_local' and p.at('('):
                p.next(); p.next(); p.expect(')')
        else: break
    # return type: parse_type would swallow "(params)" only if followed by '*', fine.
    ret = p.parse_type()
    k, v = p.next()
    if k != 'glob': raise IRError('fn name? ' + l)
    name = v[1:].strip('"')
    p.expect('(')
    params = []; va = False
    while not p.at(')'):
        if p.peek()[0] == 'dots':
            p.next(); va = True
        else:
            t = p.parse_type()
            info = p._skip_param_attrs()
            pname = None
            if p.peek()[0] == 'local':
                pname = p.next()[1]
            params.append((t, pname, info))
        if not p.accept(','): break
    p.expect(')')
    return {'name': name, 'ret': ret, 'params': params, 'vararg': va, 'is_def': is_def}

def parse_global(l, mod):
    toks = lex(l)
    p = P(toks, mod)
    name = p.next()[1][1:].strip('"')
    p.expect('=')
    is_tls = False; external = False
    while True:
        k, v = p.peek()
        if k == 'ident' and v in LINKAGE:
            p.next()
            if v in ('external', 'extern_weak', 'available_externally'): external = True
            if v == 'thread_local':
                is_tls = True
                if p.at('('):
                    p.next(); p.next(); p.expect(')')
        else: break
    k, v = p.next()
    if v == 'alias':
        mod.aliases[name] = (None, toks[p.i:])
        return
    if v == 'ifunc': raise IRError('ifunc')
    if v not in ('global', 'constant'): raise IRError('global? ' + l)
    t = p.parse_type()
    init = None
    if not p.eof() and not p.at(','):
        init = (toks, p.i)   # parse lazily with the code generator (needs naming)
    mod.globals[name] = {'name': name, 'type': t, 'const': v == 'constant', 'init': init, 'tls': is_tls,
                         'external': external and init is None}

# ----------------------------------------------------------------------------- constants / values
def cstr_bytes(tok):
    raw = tok[2:-1]; bs = []; i = 0
    while i < len(raw):
        if raw[i] == '\\':
            if raw[i+1] == '\\':
                bs.append(92); i += 2
            else:
                bs.append(int(raw[i+1:i+3], 16)); i += 3
        else:
            bs.append(ord(raw[i])); i += 1
    return bs

def float_lit(tok, t):
    if tok.startswith('0x'):
        if tok[2] in 'KMLHR': raise IRError('fp80/half constant ' + tok)
        bits = int(tok[2:], 16)
        d = struct.unpack('<d', struct.pack('<Q', bits))[0]
    else:
        d = float(tok)
    if d != d: return '__builtin_nan("")' if t[0] == 'double' else '__builtin_nanf("")'
    if d in (float('inf'), float('-inf')):
        s = '__builtin_inf()' if t[0] == 'double' else '__builtin_inff()'
        return s if d > 0 else '(-%s)' % s
    h = d.hex()
    return '(%s)' % (h if t[0] == 'double' else h + 'f' if False else '(float)' + h)

NOP_INTRINSICS = ('llvm.lifetime.', 'llvm.dbg.', 'llvm.experimental.noalias.scope.decl', 'llvm.assume',
                  'llvm.prefetch', 'llvm.invariant.', 'llvm.stackrestore', 'llvm.var.annotation', 'llvm.donothing',
                  'llvm.x86.sse2.pause')

class FnGen:
    def __init__(self, cg, mod, f):
        self.cg = cg; self.mod = mod; self.f = f
        self.lnames = {}; self._used = set(); self.decls = {}   # cname -> ctype
        self.vtypes = {}   # local ir name -> type
        self.refs = set()  # referenced globals/functions
        self.tmpc = 0
        self.defs = {}     # local ir name -> defining instruction tokens
        self.cond_expr = {}
    def lname(self, v):
        if v in self.lnames: return self.lnames[v]
        c = 'v' + re.sub(r'[^A-Za-z0-9_]', '_', v[1:].strip('"'))
        base = c; k = 1
        while c in self._used:
            k += 1; c = '%s_%d' % (base, k)
        self._used.add(c); self.lnames[v] = c
        return c
    def tmp(self, ctype):
        self.tmpc += 1
        n = 't%d_' % self.tmpc
        self.decls[n] = ctype
        return n

class Gen:
    def __init__(self, mod, opts):
        self.mod = mod; self.opts = opts; self.cg = CG(mod, opts)
        self.refs = set()
        self.strings = {}   # global name -> bytes (for label resolution)
    # ---- constant / value parsing -> (C expression, type)
    def value(self, p, t, fg=None):
        """parse a value of known type t at cursor p; return C expr"""
        k, v = p.next()
        cg = self.cg
        if k == 'local':
            if fg is None: raise IRError('local in constant')
            return fg.lname(v)
        if k == 'glob':
            name = v[1:].strip('"')
            self.note_ref(name, fg)
            return self.global_addr(name, t)
        if k == 'num' or k == 'hex':
            if t[0] == 'int':
                if k == 'hex': raise IRError('hex int ' + v)
                return self.int_lit(int(v), t)
            if t[0] in ('float', 'double'):
                return float_lit(v, t)
            raise IRError('number for type %r' % (t,))
        if k == 'ident':
            if v == 'true': return '1'
            if v == 'false': return '0'
            if v == 'null': return '((%s)0)' % cg.ctype(t)
            if v in ('undef', 'poison', 'zeroinitializer'):
                return self.zero(t)
            if v in ('getelementptr', 'bitcast', 'ptrtoint', 'inttoptr', 'trunc', 'zext', 'sext', 'add', 'sub',
                     'mul', 'and', 'or', 'xor', 'shl', 'lshr', 'ashr', 'select', 'icmp', 'addrspacecast',
                     'udiv', 'sdiv', 'urem', 'srem'):
                return self.constexpr(v, p, t, fg)
            if v == 'blockaddress': raise IRError('blockaddress')
            raise IRError('value ident %s' % v)
        if k == 'cstr':
            bs = cstr_bytes(v)
            return '{{%s}}' % ','.join(map(str, bs))
        if v == '{' or v == '[' or v == '<':
            return self.aggregate_const(v, p, t, fg)
        raise IRError('value token %r (type %r) in %s' % (v, t, p.text()))
    def int_lit(self, n, t):
        w = t[1]
        if w == 1: return '1' if n & 1 else '0'
        n &= (1 << w) - 1
        if w <= 32: return '%dU' % n if n > 0x7fffffff else '%d' % n
        if w <= 64: return '%dULL' % n
        hi, lo = n >> 64, n & ((1 << 64) - 1)
        return '((((u128_t)%dULL) << 64) | (u128_t)%dULL)' % (hi, lo)
    def zero(self, t):
        k = t[0]
        if k == 'int': return '0'
        if k in ('float', 'double', 'fp80'): return '0.0'
        if k == 'ptr': return '((%s)0)' % self.cg.ctype(t)
        # aggregate zero: compound literal works both as initializer element? use {0}-style for init context
        return '((%s){0})' % self.cg.ctype(t)
    def typed_value(self, p, fg=None):
        t = p.parse_type()
        p._skip_param_attrs()
        return self.value(p, t, fg), t
    def aggregate_const(self, open_, p, t, fg):
        """struct/array constant; returns C compound literal"""
        packed = False
        if open_ == '<':
            if p.accept('{'):
                packed = True; close = '}'
            else:
                raise IRError('vector constant')
        else:
            close = '}' if open_ == '{' else ']'
        elems = []
        if not p.accept(close):
            while True:
                e, et = self.typed_value(p, fg)
                elems.append(self.init_form(e))
                if p.accept(close): break
                p.expect(',')
        if packed: p.expect('>')
        ct = self.cg.ctype(t)
        if t[0] == 'array':
            return '((%s){{%s}})' % (ct, ','.join(elems))
        return '((%s){%s})' % (ct, ','.join(elems))
    @staticmethod
    def init_form(e):
        return e
    def global_addr(self, name, t):
        """address of global/function `name` as a value of pointer type t"""
        c = self.cg.gname(name)
        if name in self.mod.funcs or (name in self.mod.aliases and name not in self.mod.globals):
            return '((%s)&%s)' % (self.cg.ctype(t), c)
        return '((%s)&%s)' % (self.cg.ctype(t), c)
    def note_ref(self, name, fg):
        self.refs.add(name)
        if fg is not None: fg.refs.add(name)
    def constexpr(self, op, p, t, fg):
        cg = self.cg
        if op in ('bitcast', 'ptrtoint', 'inttoptr', 'trunc', 'zext', 'sext', 'addrspacecast'):
            p.expect('(')
            e, et = self.typed_value(p, fg)
            p.expect_ident('to')
            tt = p.parse_type()
            p.expect(')')
            return self.cast(op, e, et, tt)
        if op == 'getelementptr':
            p.accept('inbounds')
            p.expect('(')
            bt = p.parse_type(); p.expect(',')
            base, pt = self.typed_value(p, fg)
            idx = []
            while p.accept(','):
                p.accept('inrange')
                ie, it = self.typed_value(p, fg)
                idx.append((ie, it))
            p.expect(')')
            e, rt = self.gep(base, bt, idx)
            return e
        if op in ('add', 'sub', 'mul', 'and', 'or', 'xor', 'shl', 'lshr', 'ashr', 'udiv', 'sdiv', 'urem', 'srem'):
            while p.peek()[1] in ('nsw', 'nuw', 'exact'): p.next()
            p.expect('(')
            a, at = self.typed_value(p, fg); p.expect(',')
            b, bt = self.typed_value(p, fg); p.expect(')')
            return self.binop(op, a, b, at, set())
        if op == 'select':
            p.expect('(')
            c, _ = self.typed_value(p, fg); p.expect(',')
            a, at = self.typed_value(p, fg); p.expect(',')
            b, bt = self.typed_value(p, fg); p.expect(')')
            return '(%s ? %s : %s)' % (c, a, b)
        if op == 'icmp':
            pred = p.next()[1]
            p.expect('(')
            a, at = self.typed_value(p, fg); p.expect(',')
            b, bt = self.typed_value(p, fg); p.expect(')')
            return self.icmp(pred, a, b, at)
        raise IRError('constexpr ' + op)
    # ---- expression builders
    def cast(self, op, e, ft, tt):
        cg = self.cg
        ct = cg.ctype(tt)
        if op == 'bitcast':
            if ft[0] == 'ptr' and tt[0] == 'ptr': return '((%s)%s)' % (ct, e)
            if ft == tt: return e
            # scalar reinterpretation (double<->i64, float<->i32)
            return 'BITCAST(%s, %s, %s)' % (cg.ctype(ft), ct, e)
        if op == 'ptrtoint':
            return '((%s)(uintptr_t)%s)' % (ct, e)
        if op == 'inttoptr':
            return '((%s)(uintptr_t)%s)' % (ct, e)
        if op == 'trunc':
            w = tt[1]
            if w == 1: return '((_Bool)((%s) & 1))' % e
            return self.mask('((%s)%s)' % (ct, e), tt)
        if op == 'zext':
            return '((%s)%s)' % (ct, self.mask(e, ft) if ft[1] not in (1, 8, 16, 32, 64, 128) else e)
        if op == 'sext':
            if ft[1] == 1: return '((%s)(-(%s)%s))' % (ct, cg.sctype(tt), e)
            if ft[1] in (8, 16, 32, 64, 128):
                return self.mask('((%s)(%s)(%s)%s)' % (ct, cg.sctype(tt), cg.sctype(ft), e), tt)
            return self.mask('((%s)SEXT_ODD(%s, %d))' % (ct, e, ft[1]), tt)
        if op == 'addrspacecast': raise IRError('addrspacecast')
        raise IRError('cast ' + op)
    def mask(self, e, t):
        w = t[1]
        if w in (1, 8, 16, 32, 64, 128): return e
        return '((%s)((%s) & %s))' % (self.cg.ctype(t), e, self.int_lit((1 << w) - 1, ('int', 64 if w < 64 else 128)))
    def binop(self, op, a, b, t, flags):
        cg = self.cg
        w = t[1]; ct = cg.ctype(t)
        if w == 1:
            sym = {'add': '^', 'sub': '^', 'mul': '&', 'and': '&', 'or': '|', 'xor': '^'}.get(op)
            if sym is None: raise IRError('i1 ' + op)
            return '((_Bool)(%s %s %s))' % (a, sym, b)
        wt = ct if w >= 32 else 'uint32_t'      # working type (avoid int promotion surprises)
        st = cg.sctype(t) if w >= 32 else 'int32_t'
        odd = w not in (8, 16, 32, 64, 128)
        if op in ('add', 'sub', 'mul'):
            sym = {'add': '+', 'sub': '-', 'mul': '*'}[op]
            if 'nsw' in flags and not odd and w >= 32 and self.opts.nsw:
                return '((%s)((%s)%s %s (%s)%s))' % (ct, st, a, sym, st, b)
            return self.mask('((%s)((%s)%s %s (%s)%s))' % (ct, wt, a, sym, wt, b), t)
        if op in ('and', 'or', 'xor'):
            sym = {'and': '&', 'or': '|', 'xor': '^'}[op]
            return '((%s)(%s %s %s))' % (ct, a, sym, b)
        if op == 'shl':
            return self.mask('((%s)((%s)%s << %s))' % (ct, wt, a, b), t)
        if op == 'lshr':
            return '((%s)((%s)%s >> %s))' % (ct, wt, a, b)
        if op in ('udiv', 'urem'):
            return '((%s)((%s)%s %s (%s)%s))' % (ct, wt, a, '/' if op == 'udiv' else '%', wt, b)
        if op in ('ashr', 'sdiv', 'srem'):
            sym = {'ashr': '>>', 'sdiv': '/', 'srem': '%'}[op]
            if odd:
                sa = 'SEXT_ODD(%s, %d)' % (a, w)
                sb = b if op == 'ashr' else 'SEXT_ODD(%s, %d)' % (b, w)
                return self.mask('((%s)(%s %s %s))' % (ct, sa, sym, sb), t)
            sst = cg.sctype(t)
            if op == 'ashr':
                return '((%s)((%s)%s >> %s))' % (ct, sst, a, b)
            return '((%s)((%s)%s %s (%s)%s))' % (ct, sst, a, sym, sst, b)
        raise IRError('binop ' + op)
    def icmp(self, pred, a, b, t):
        sym = {'eq': '==', 'ne': '!=', 'ugt': '>', 'uge': '>=', 'ult': '<', 'ule': '<=',
               'sgt': '>', 'sge': '>=', 'slt': '<', 'sle': '<='}[pred]
        if t[0] == 'ptr':
            if pred in ('eq', 'ne'): return '(%s %s %s)' % (a, sym, b)
            return '((uintptr_t)%s %s (uintptr_t)%s)' % (a, sym, b)
        if t[0] != 'int': raise IRError('icmp on %r' % (t,))
        if pred[0] == 's' and t[1] != 1:
            w = t[1]
            if w in (8, 16, 32, 64, 128):
                st = self.cg.sctype(t)
                return '((%s)%s %s (%s)%s)' % (st, a, sym, st, b)
            return '(SEXT_ODD(%s, %d) %s SEXT_ODD(%s, %d))' % (a, w, sym, b, w)
        if pred[0] == 's' and t[1] == 1:
            # signed compare on i1: true == -1
            return '((int)-(int)%s %s (int)-(int)%s)' % (a, sym, b)
        ct = self.cg.ctype(t)
        return '((%s)%s %s (%s)%s)' % (ct, a, sym, ct, b)
    def gep(self, base, bt, idx):
        """base: C expr of type bt*; idx: list of (cexpr, type). returns (expr, result pointee type)"""
        cg = self.cg
        cur_t = bt
        i0 = idx[0][0]
        cbt = cg.ctype(PTR(bt))
        if bt[0] == 'func' or bt[0] == 'void': raise IRError('gep over function/void')
        if i0 not in ('0', '0ULL') and len(idx) > 1:
            # one GEP = one address computation: do it as a single byte offset so that no out-of-bounds
            # intermediate pointer is formed (e.g. array-cookie access  gep T* p, -1, 1)
            sa = self.size_align(bt)
            if sa is None: raise IRError('gep over unsized type')
            terms = ['(%s) * %dLL' % (self.sidx(idx[0]), sa[0])]
            for ie, it in idx[1:]:
                k = cur_t[0]
                if k in ('struct', 'lstruct'):
                    fields, packed = (self.mod.structs[cur_t[1]] if k == 'struct' else (cur_t[1], cur_t[2]))
                    fi = self.const_int(ie)
                    off = 0
                    for j, f in enumerate(fields):
                        fsa = self.size_align(f)
                        if fsa is None: raise IRError('gep over unsized field')
                        fa = 1 if packed else fsa[1]
                        off = (off + fa - 1) // fa * fa
                        if j == fi: break
                        off += fsa[0]
                    terms.append('%dLL' % off); cur_t = fields[fi]
                elif k == 'array':
                    esa = self.size_align(cur_t[2])
                    terms.append('(%s) * %dLL' % (self.sidx((ie, it)), esa[0])); cur_t = cur_t[2]
                else:
                    raise IRError('gep into %r' % (cur_t,))
            e = '((%s)(((uint8_t*)%s) + (%s)))' % (cg.ctype(PTR(cur_t)), base, ' + '.join(terms))
            return e, cur_t
        if i0 in ('0', '0ULL'):
            e = base
        else:
            e = '(&(%s)[%s])' % (base, self.sidx(idx[0]))
        for ie, it in idx[1:]:
            k = cur_t[0]
            if k == 'struct':
                ent = self.mod.structs[cur_t[1]]
                fi = self.const_int(ie)
                if cur_t[1] in cg.retyped:
                    cur_t = ent[0][fi]
                    e = '((%s)(%s))' % (cg.ctype(PTR(cur_t)), e)
                elif cur_t[1] in cg.sso_unions:
                    cur_t = ent[0][fi]
                    e = '((%s)&(%s)->a[%d])' % (cg.ctype(PTR(cur_t)), e, 0 if fi == 0 else 8)
                elif cg.is_union_slot(cur_t[1], ent[0][fi]):
                    e = '((%s)&(%s)->f%d)' % (cg.ctype(PTR(ent[0][fi])), e, fi); cur_t = ent[0][fi]
                else:
                    e = '(&(%s)->f%d)' % (e, fi); cur_t = ent[0][fi]
            elif k == 'lstruct':
                fi = self.const_int(ie)
                e = '(&(%s)->f%d)' % (e, fi); cur_t = cur_t[1][fi]
            elif k == 'array':
                e = '(&(%s)->a[%s])' % (e, self.sidx((ie, it))); cur_t = cur_t[2]
            else:
                raise IRError('gep into %r' % (cur_t,))
        return e, cur_t
    def sidx(self, iv):
        ie, it = iv
        if re.fullmatch(r'\d+(U|ULL)?', ie):
            n = int(re.match(r'\d+', ie).group(0)); w = it[1]
            if n >= 1 << (w - 1): n -= 1 << w
            return '%dLL' % n if n >= 0 else '(%dLL)' % n
        w = it[1]
        if w == 64: return '(int64_t)%s' % ie
        if w in (8, 16, 32): return '(int64_t)(%s)%s' % (self.cg.sctype(it), ie)
        return '(int64_t)SEXT_ODD(%s, %d)' % (ie, w)
    @staticmethod
    def const_int(e):
        m = re.fullmatch(r'(\d+)(U|ULL)?', e)
        if not m: raise IRError('non-constant struct index ' + e)
        return int(m.group(1))

    # ------------------------------------------------------------------------- function bodies
    def gen_function(self, f):
        cg = self.cg
        fg = FnGen(cg, self.mod, f)
        # blocks
        blocks = []; cur = None
        first_label = None
        # the entry block label: number = count of unnamed params, unless named
        for raw in f['body']:
            s = raw.strip()
            if not s or s.startswith(';'): continue
            m = re.match(r'^("[^"]*"|[-a-zA-Z$._0-9]+):', s)
            if m and not raw.startswith('  '):
                cur = [m.group(1).strip('"'), []]; blocks.append(cur); continue
            if cur is None:
                # implicit entry label = number of unnamed (numbered) parameters
                nun = sum(1 for _, pn, _ in f['params'] if pn is None or re.fullmatch(r'%\d+', pn))
                cur = [str(nun), []]; blocks.append(cur)
            cur[1].append(s)
        # pre-scan phis + result types need sequential processing; do two passes:
        self.blabels = {}
        for b in blocks: self.blabels[b[0]] = 'L_' + re.sub(r'[^A-Za-z0-9_]', '_', b[0])
        code = []
        phis = {}   # (pred,block) -> list of (dest cname, ctype, value tokens/type)
        parsed = []
        for bn, ins in blocks:
            pl = []
            for s in ins:
                toks = lex(s)
                pl.append(toks)
            parsed.append((bn, pl))
        # pass A: record phi destinations & types so forward refs have names
        for bn, pl in parsed:
            for toks in pl:
                if len(toks) > 2 and toks[1][1] == '=' and toks[2][1] == 'phi':
                    p = P(toks, self.mod); d = p.next()[1]; p.next(); p.next()
                    t = p.parse_type()
                    dn = fg.lname(d); fg.decls[dn] = cg.ctype(t)
                    incoming = []
                    while True:
                        p.expect('[')
                        vstart = p.i
                        # value may be a complex constant: parse later, remember token span
                        depth = 0
                        while not (depth == 0 and p.at(',')):
                            if p.peek()[1] in ('(', '[', '{', '<') and p.peek()[0] == 'punct': depth += 1
                            if p.peek()[1] in (')', ']', '}', '>') and p.peek()[0] == 'punct': depth -= 1
                            p.next()
                        vtoks = toks[vstart:p.i]
                        p.expect(',')
                        pb = p.next()[1][1:].strip('"')
                        p.expect(']')
                        incoming.append((pb, vtoks))
                        if not p.accept(','): break
                    for pb, vtoks in incoming:
                        lst = phis.setdefault((pb, bn), [])
                        if not any(x[0] == dn for x in lst):     # a switch may list the same predecessor several times
                            lst.append((dn, t, vtoks))
        fg.phis = phis
        # pure data moves: an 8-byte integer/double load whose only uses are stores of the value. clang emits these
        # for small memcpys / union copies; the bytes may be a pointer. Keep the temporary pointer-typed so CBMC's
        # value sets follow it (a pointer laundered through double/i64 becomes an invalid object otherwise).
        fg.rawmove = set()
        body_text = [' '.join(x[1] for x in toks) for _, pl in parsed for toks in pl]
        for _, pl in parsed:
            for toks in pl:
                if len(toks) > 4 and toks[0][0] == 'local' and toks[1][1] == '=' and toks[2][1] == 'load' and toks[3][1] in ('i64', 'double') and toks[4][1] == ',':
                    nm = toks[0][1]
                    pat_use = re.compile(r'(?<![\w.%\-"])' + re.escape(nm) + r'(?![\w.\-"])')
                    pat_store = re.compile(r'^store (?:i64|double) ' + re.escape(nm) + r' ,')
                    uses = 0; ok = True
                    for bt in body_text:
                        k = len(pat_use.findall(bt))
                        if not k: continue
                        if bt.startswith(nm + ' = load'):
                            k -= 1
                            if not k: continue
                        if pat_store.match(bt) and k == 1: uses += 1
                        else: ok = False; break
                    if ok and uses >= 1: fg.rawmove.add(nm)
        # pass B: emit -- blocks in reverse post-order of the CFG, so that the only backward gotos of the generated C are
        # real loop back edges (LLVM's textual order may put a latch/continue block in the middle of the loop body; every
        # later jump to it is then a backward goto, which CBMC unwinds as an additional nested loop and whose unwinding
        # assertion can fail although no execution iterates that often)
        if self.opts.rpo and parsed:
            succ = {}
            names = set(bn for bn, _ in parsed)
            for bn, pl in parsed:
                out = []
                if pl:
                    term = pl[-1]
                    for k in range(len(term) - 1):
                        if term[k][1] == 'label':
                            nm = term[k + 1][1]
                            if nm.startswith('%'): nm = nm[1:]
                            nm = nm.strip('"')
                            if nm in names and nm not in out: out.append(nm)
                succ[bn] = out
            seen = set(); post = []
            stack = [(parsed[0][0], iter(reversed(succ[parsed[0][0]])))]; seen.add(parsed[0][0])
            while stack:
                node, it = stack[-1]
                adv = False
                for nx in it:
                    if nx not in seen:
                        seen.add(nx); stack.append((nx, iter(reversed(succ[nx])))); adv = True; break
                if not adv:
                    post.append(node); stack.pop()
            order = list(reversed(post))
            byname = dict(parsed)
            parsed = [(bn, byname[bn]) for bn in order] + [(bn, pl) for bn, pl in parsed if bn not in seen]
        for bn, pl in parsed:
            code.append('%s: ;' % self.blabels[bn])
            for toks in pl:
                try:
                    self.gen_insn(fg, bn, toks, code)
                except IRError as e:
                    raise IRError('%s\n  in function %s: %s' % (e, f['name'], ' '.join(x[1] for x in toks)))
        # header
        ps = []
        for k, (t, pname, info) in enumerate(f['params']):
            pn = fg.lname(pname) if pname else 'p%d' % k
            ps.append('%s %s' % (cg.ctype(t), pn))
        if f['vararg']: raise IRError('variadic function definition ' + f['name'])
        hdr = '%s %s(%s)' % (cg.ctype(f['ret']), cg.gname(f['name']), ', '.join(ps) if ps else 'void')
        pnames = set(fg.lname(pn) for _, pn, _ in f['params'] if pn)
        out = [hdr + ' {']
        if f['name'] in self.opts.entry: out.append('  verif_run_global_ctors();')
        for d, t in fg.decls.items():
            if d in pnames: continue
            out.append('  %s %s;' % (t, d))
        out += ['  ' + c for c in code]
        out.append('}')
        return out, fg.refs

    def edge(self, fg, frm, to):
        cp = fg.phis.get((frm, to), [])
        lab = self.blabels[to]
        if not cp: return 'goto %s;' % lab
        parts = []
        vals = []
        for dn, t, vtoks in cp:
            p = P(vtoks, self.mod)
            vals.append((dn, t, self.value(p, t, fg)))
        if len(vals) == 1:
            return '{ %s = %s; goto %s; }' % (vals[0][0], vals[0][2], lab)
        s = ''
        for dn, t, v in vals:
            s += '%s ph_%s = %s; ' % (self.cg.ctype(t), dn, v)
        for dn, t, v in vals:
            s += '%s = ph_%s; ' % (dn, dn)
        return '{ %sgoto %s; }' % (s, lab)

    def define(self, fg, d, t, expr, code):
        dn = fg.lname(d); fg.decls[dn] = self.cg.ctype(t); fg.vtypes[d] = t
        code.append('%s = %s;' % (dn, expr))

    def gen_insn(self, fg, bn, toks, code):
        cg = self.cg
        p = P(toks, self.mod)
        d = None
        if p.peek()[0] == 'local' and p.peek(1)[1] == '=':
            d = p.next()[1]; p.next()
            fg.defs[d] = toks
        k, op = p.next()
        if op == 'tail' or op == 'musttail' or op == 'notail':
            k, op = p.next()
        if op == 'phi': return
        if op in ('add', 'sub', 'mul', 'and', 'or', 'xor', 'shl', 'lshr', 'ashr', 'udiv', 'urem', 'sdiv', 'srem'):
            flags = set()
            while p.peek()[1] in ('nsw', 'nuw', 'exact'): flags.add(p.next()[1])
            t = p.parse_type()
            a = self.value(p, t, fg); p.expect(','); b = self.value(p, t, fg)
            if t[0] == 'vec': raise IRError('vector op')
            self.define(fg, d, t, self.binop(op, a, b, t, flags), code); return
        if op in ('fadd', 'fsub', 'fmul', 'fdiv', 'frem'):
            while p.peek()[1] in FMF: p.next()
            t = p.parse_type()
            a = self.value(p, t, fg); p.expect(','); b = self.value(p, t, fg)
            if op == 'frem':
                e = '%s(%s, %s)' % ('fmod' if t[0] == 'double' else 'fmodf', a, b)
            else:
                hook = self.opts.fp_hooks
                sym = {'fadd': '+', 'fsub': '-', 'fmul': '*', 'fdiv': '/'}[op]
                e = '(%s %s %s)' % (a, sym, b)
                if hook and op == 'fmul' and t[0] == 'double':
                    e = '__fp_mul_hook(%s, %s)' % (a, b)
            self.define(fg, d, t, e, code); return
        if op == 'fneg':
            while p.peek()[1] in FMF: p.next()
            t = p.parse_type(); a = self.value(p, t, fg)
            self.define(fg, d, t, '(-%s)' % a, code); return
        if op in ('zext', 'sext', 'trunc', 'bitcast', 'ptrtoint', 'inttoptr', 'fptoui', 'fptosi', 'uitofp', 'sitofp',
                  'fpext', 'fptrunc'):
            e, ft = self.typed_value(p, fg)
            p.expect_ident('to'); tt = p.parse_type()
            if op in ('zext', 'sext', 'trunc', 'bitcast', 'ptrtoint', 'inttoptr'):
                self.define(fg, d, tt, self.cast(op, e, ft, tt), code); return
            ct = cg.ctype(tt)
            if op == 'fptoui':
                code.append('VERIF_CHECK(%s > -1.0 && %s < %s, "UB: floating-point to unsigned conversion out of range");' % (e, e, float(2 ** tt[1]).hex()))
                ex = self.mask('((%s)%s)' % (ct, e), tt)
            elif op == 'fptosi':
                lo = ('%s > %s' % (e, float(-(2 ** (tt[1] - 1)) - 1).hex())) if tt[1] <= 52 else ('%s >= %s' % (e, float(-(2 ** (tt[1] - 1))).hex()))
                code.append('VERIF_CHECK(%s && %s < %s, "UB: floating-point to signed conversion out of range");' % (lo, e, float(2 ** (tt[1] - 1)).hex()))
                ex = self.mask('((%s)(%s)%s)' % (ct, cg.sctype(tt), e), tt)
            elif op == 'uitofp': ex = '((%s)%s)' % (ct, e)
            elif op == 'sitofp':
                ex = '((%s)(%s)%s)' % (ct, cg.sctype(ft), e) if ft[1] in (8, 16, 32, 64) else '((%s)SEXT_ODD(%s,%d))' % (ct, e, ft[1])
            else: ex = '((%s)%s)' % (ct, e)
            self.define(fg, d, tt, ex, code); return
        if op == 'icmp':
            pred = p.next()[1]; t = p.parse_type()
            a = self.value(p, t, fg); p.expect(','); b = self.value(p, t, fg)
            ex = self.icmp(pred, a, b, t)
            fg.cond_expr[fg.lname(d)] = ex     # SSA: operands never change, so a branch may repeat the comparison
            self.define(fg, d, I1, ex, code); return
        if op == 'fcmp':
            while p.peek()[1] in FMF: p.next()
            pred = p.next()[1]; t = p.parse_type()
            a = self.value(p, t, fg); p.expect(','); b = self.value(p, t, fg)
            self.define(fg, d, I1, self.fcmp(pred, a, b), code); return
        if op == 'select':
            while p.peek()[1] in FMF: p.next()
            c, ctp = self.typed_value(p, fg); p.expect(',')
            a, t = self.typed_value(p, fg); p.expect(',')
            b, _ = self.typed_value(p, fg)
            if ctp[0] == 'vec': raise IRError('vector select')
            self.define(fg, d, t, '(%s ? %s : %s)' % (c, a, b), code); return
        if op == 'getelementptr':
            p.accept('inbounds')
            bt = p.parse_type(); p.expect(',')
            base, pt = self.typed_value(p, fg)
            idx = []
            while p.accept(','):
                if p.peek()[0] == 'md': break
                p.accept('inrange')
                ie, it = self.typed_value(p, fg); idx.append((ie, it))
            e, rt = self.gep(base, bt, idx)
            if '*)' not in e and rt in (('int', 64), ('double',)):
                if not hasattr(fg, 'plain_addr'): fg.plain_addr = set()
                fg.plain_addr.add(d)      # address of a genuine i64/double field: no cast, no union slot, no byte offset on the way
            self.define(fg, d, PTR(rt), e, code); return
        if op == 'load':
            atomic = p.accept('atomic'); p.accept('volatile')
            t = p.parse_type(); p.expect(',')
            a, pt = self.typed_value(p, fg)
            if atomic:
                p.accept('syncscope')
                order = p.next()[1]
                if t == ('int', 64) and self.ptr_atomic(fg, toks):
                    self.define(fg, d, t, '((uint64_t)(uintptr_t)__at_loadp((void**)%s, %d))' % (a, ORDERS[order]), code); return
                self.define(fg, d, t, self.atomic_call('load', t, [a], order), code); return
            if d in fg.rawmove and not os.environ.get('IR2C_RAW_ALL') and toks_addr_name(toks) in getattr(fg, 'plain_addr', ()):
                # the value comes from a genuine integer field (address formed by getelementptr only, emitted without any cast): keep it an
                # integer. Measured: an integer option copied through a void* temporary became (uint64_t)(void*)1, which CBMC does not
                # fold, and every comparison against it turned into a symbolic branch (batch processor Export).
                fg.rawmove.discard(d)
            if d in fg.rawmove:
                dn = fg.lname(d); fg.decls[dn] = 'void*'; fg.vtypes[d] = t
                # both views of the 8 bytes: the pointer view keeps provenance when the bytes are a pointer, the integer view keeps an
                # integer foldable ((uint64_t)(void*)21 is not folded by CBMC); each store picks the view that fits its destination
                fg.decls[dn + '__ri'] = 'uint64_t'
                code.append('%s = (*(void**)%s); %s__ri = (*(uint64_t*)%s);' % (dn, a, dn, a)); return
            self.define(fg, d, t, '(*%s)' % a, code); return
        if op == 'store':
            atomic = p.accept('atomic'); p.accept('volatile')
            is_raw = p.peek(1)[0] == 'local' and p.peek(1)[1] in fg.rawmove
            raw_name = p.peek(1)[1] if is_raw else None
            v, t = self.typed_value(p, fg); p.expect(',')
            addr_tok = p.peek(1)
            a, pt = self.typed_value(p, fg)
            if is_raw and not atomic:
                if addr_tok[0] == 'local' and addr_tok[1] in getattr(fg, 'plain_addr', ()) and not os.environ.get('IR2C_RAW_ALL'):
                    code.append('*(uint64_t*)%s = %s__ri;' % (a, fg.lname(raw_name))); return     # destination is a genuine integer/double field
                code.append('*(void**)%s = %s;' % (a, v)); return
            if atomic:
                order = p.next()[1]
                if t == ('int', 64) and self.ptr_atomic(fg, toks):
                    code.append('__at_storep((void**)%s, (void*)(uintptr_t)%s, %d);' % (a, v, ORDERS[order])); return
                code.append('%s;' % self.atomic_call('store', t, [a, v], order)); return
            code.append('*%s = %s;' % (a, v)); return
        if op == 'atomicrmw':
            p.accept('volatile')
            rop = p.next()[1]
            a, pt = self.typed_value(p, fg); p.expect(',')
            v, t = self.typed_value(p, fg)
            order = p.next()[1]
            if rop == 'xchg' and t == ('int', 64) and self.ptr_atomic(fg, toks):
                self.define(fg, d, t, '((uint64_t)(uintptr_t)__at_xchgp((void**)%s, (void*)(uintptr_t)%s, %d))' % (a, v, ORDERS[order]), code); return
            self.define(fg, d, t, self.atomic_call(rop, t, [a, v], order), code); return
        if op == 'cmpxchg':
            weak = p.accept('weak'); p.accept('volatile')
            a, pt = self.typed_value(p, fg); p.expect(',')
            c, t = self.typed_value(p, fg); p.expect(',')
            nv, _ = self.typed_value(p, fg)
            so = p.next()[1]; fo = p.next()[1]
            rt = ('lstruct', (t, I1), False)
            w = self.at_width(t)
            dn = fg.lname(d); fg.decls[dn] = cg.ctype(rt); fg.vtypes[d] = rt
            if t == ('int', 64) and self.ptr_atomic(fg, toks):
                tmp = fg.tmp('void*')
                code.append('%s = (void*)(uintptr_t)%s; %s.f1 = __at_casp((void**)%s, &%s, (void*)(uintptr_t)%s, %d, %d, %d); %s.f0 = (uint64_t)(uintptr_t)%s;' %
                            (tmp, c, dn, a, tmp, nv, ORDERS[so], ORDERS[fo], 1 if weak else 0, dn, tmp))
                return
            code.append('%s.f0 = %s; %s.f1 = __at_cas%d((uint%d_t*)%s, &%s.f0, %s, %d, %d, %d);' %
                        (dn, c, dn, w, w, a, dn, nv, ORDERS[so], ORDERS[fo], 1 if weak else 0))
            return
        if op == 'fence':
            p.accept('syncscope')
            order = p.next()[1]
            if order == 'syncscope':
                p.expect('('); p.next(); p.expect(')'); order = p.next()[1]
            code.append('__at_fence(%d);' % ORDERS[order]); return
        if op == 'alloca':
            t = p.parse_type()
            if p.accept(','):
                if not p.at('align'):
                    ne, nt = self.typed_value(p, fg)
                    raise IRError('dynamic alloca')
            dn = fg.lname(d); fg.decls[dn] = cg.ctype(PTR(t)); fg.vtypes[d] = PTR(t)
            mem = dn + '_mem'; fg.decls[mem] = cg.ctype(t)
            code.append('%s = &%s;' % (dn, mem)); return
        if op == 'br':
            if p.accept('label'):
                to = p.next()[1][1:].strip('"')
                code.append(self.edge(fg, bn, to)); return
            c, _ = self.typed_value(p, fg); p.expect(','); p.expect('label')
            # branch on the comparison itself (not on the i1 temporary): lets CBMC's symex filter pointer
            # value sets on null checks, which keeps vptr loads constant after path merges
            c = fg.cond_expr.get(c, c)
            a = p.next()[1][1:].strip('"'); p.expect(','); p.expect('label'); b = p.next()[1][1:].strip('"')
            code.append('if (%s) %s else %s' % (c, self.edge(fg, bn, a), self.edge(fg, bn, b))); return
        if op == 'switch':
            v, t = self.typed_value(p, fg); p.expect(','); p.expect('label')
            dflt = p.next()[1][1:].strip('"')
            p.expect('[')
            s = ''
            seen = set()
            while not p.accept(']'):
                ct_ = p.parse_type(); cv = self.value(p, ct_, fg); p.expect(','); p.expect('label')
                to = p.next()[1][1:].strip('"')
                s += 'if (%s == %s) %s else ' % (v, cv, self.edge(fg, bn, to))
            code.append(s + self.edge(fg, bn, dflt)); return
        if op == 'ret':
            if fg.f['name'] in self.opts.entry: code.append('VERIF_WITNESS_END();')
            if p.accept('void'):
                code.append('return;'); return
            v, t = self.typed_value(p, fg)
            code.append('return %s;' % v); return
        if op == 'unreachable':
            code.append('VERIF_UNREACHABLE();'); return
        if op == 'extractvalue':
            v, t = self.typed_value(p, fg)
            e = v; cur = t
            while p.accept(','):
                if p.peek()[0] == 'md': break
                i = int(p.next()[1])
                e, cur = self.agg_field(e, cur, i)
            self.define(fg, d, cur, e, code); return
        if op == 'insertvalue':
            v, t = self.typed_value(p, fg); p.expect(',')
            x, xt = self.typed_value(p, fg)
            dn = fg.lname(d); fg.decls[dn] = cg.ctype(t); fg.vtypes[d] = t
            e = dn; cur = t
            while p.accept(','):
                if p.peek()[0] == 'md': break
                i = int(p.next()[1])
                e, cur = self.agg_field(e, cur, i)
            code.append('%s = %s; %s = %s;' % (dn, v, e, x)); return
        if op in ('call', 'invoke'):
            self.gen_call(fg, bn, d, p, code, op == 'invoke'); return
        if op == 'landingpad':
            # unreachable in our encoding (invoke never unwinds); define nothing, stop the path
            t = p.parse_type()
            dn = fg.lname(d); fg.decls[dn] = cg.ctype(t)
            code.append('VERIF_ASSUME(0);'); return
        if op == 'resume':
            code.append('VERIF_ASSUME(0);'); return
        if op == 'freeze':
            v, t = self.typed_value(p, fg)
            self.define(fg, d, t, v, code); return
        raise IRError('unsupported instruction ' + op)

    def agg_field(self, e, t, i):
        if t[0] == 'struct' and t[1] in self.cg.retyped: raise IRError('extract/insertvalue on retyped placement buffer')
        if t[0] == 'struct' and t[1] in self.cg.sso_unions: raise IRError('extract/insertvalue on std::string SSO union')
        if t[0] == 'struct' and self.cg.is_union_slot(t[1], self.mod.structs[t[1]][0][i]): raise IRError('extract/insertvalue on union slot')
        if t[0] == 'struct': return '%s.f%d' % (e, i), self.mod.structs[t[1]][0][i]
        if t[0] == 'lstruct': return '%s.f%d' % (e, i), t[1][i]
        if t[0] == 'array': return '%s.a[%d]' % (e, i), t[2]
        raise IRError('aggregate field of %r' % (t,))
    def fcmp(self, pred, a, b):
        o = {'oeq': '(%s == %s)', 'ogt': '(%s > %s)', 'oge': '(%s >= %s)', 'olt': '(%s < %s)', 'ole': '(%s <= %s)'}
        if pred in o: return o[pred] % (a, b)
        if pred == 'one': return '((%s < %s) || (%s > %s))' % (a, b, a, b)
        if pred == 'ord': return '((%s == %s) && (%s == %s))' % (a, a, b, b)
        if pred == 'uno': return '((%s != %s) || (%s != %s))' % (a, a, b, b)
        if pred == 'ueq': return '(!((%s < %s) || (%s > %s)))' % (a, b, a, b)
        if pred == 'une': return '(%s != %s)' % (a, b)
        if pred == 'ugt': return '(!(%s <= %s))' % (a, b)
        if pred == 'uge': return '(!(%s < %s))' % (a, b)
        if pred == 'ult': return '(!(%s >= %s))' % (a, b)
        if pred == 'ule': return '(!(%s > %s))' % (a, b)
        if pred == 'true': return '1'
        if pred == 'false': return '0'
        raise IRError('fcmp ' + pred)
    def ptr_atomic(self, fg, toks):
        """an i64 atomic whose address is `bitcast T** %p to i64*`: really an atomic on a pointer cell (clang lowers
        std::atomic<T*> to i64). Use pointer-typed hooks so that CBMC keeps the provenance of the stored pointers."""
        for k, v in toks:
            if k == 'local' and v in fg.defs:
                dt = fg.defs[v]
                if len(dt) > 3 and dt[2][1] == 'bitcast':
                    p = P(dt, self.mod); p.next(); p.next(); p.next()
                    try:
                        ft = p.parse_type(); p.next(); p.expect_ident('to'); tt = p.parse_type()
                    except IRError:
                        continue
                    if tt != PTR(('int', 64)) or ft[0] != 'ptr': continue
                    t = ft[1]
                    for _ in range(12):      # the cell is the first leaf of the pointed-to type
                        if t[0] == 'struct':
                            ent = self.mod.structs.get(t[1])
                            if not ent or not ent[0]: break
                            t = ent[0][0]
                        elif t[0] == 'lstruct' and t[1]: t = t[1][0]
                        elif t[0] == 'array': t = t[2]
                        else: break
                    if t[0] == 'ptr': return True
        return False
    def at_width(self, t):
        if t[0] == 'ptr': return 64
        if t[0] == 'int' and t[1] in (8, 16, 32, 64): return t[1]
        raise IRError('atomic on %r' % (t,))
    def atomic_call(self, kind, t, args, order):
        w = self.at_width(t)
        ct = self.cg.ctype(t)
        a0 = '(uint%d_t*)%s' % (w, args[0])
        def toint(e): return '(uint%d_t)(uintptr_t)%s' % (w, e) if t[0] == 'ptr' else e
        def fromint(e): return '((%s)(uintptr_t)%s)' % (ct, e) if t[0] == 'ptr' else e
        if kind == 'load':
            return fromint('__at_load%d(%s, %d)' % (w, a0, ORDERS[order]))
        if kind == 'store':
            return '__at_store%d(%s, %s, %d)' % (w, a0, toint(args[1]), ORDERS[order])
        if kind in ('xchg', 'add', 'sub', 'and', 'or', 'xor', 'max', 'min', 'umax', 'umin', 'nand'):
            return fromint('__at_%s%d(%s, %s, %d)' % (kind, w, a0, toint(args[1]), ORDERS[order]))
        raise IRError('atomicrmw ' + kind)

    def gen_call(self, fg, bn, d, p, code, is_invoke):
        cg = self.cg
        # skip call attrs / fast-math / cc
        while True:
            k, v = p.peek()
            if k == 'ident' and (v in FN_PRE or v in FMF or v in ('fastcc', 'ccc')):
                p.next()
                if v in ('dereferenceable', 'dereferenceable_or_null'):
                    p.expect('('); p.next(); p.expect(')')
                if v == 'align': p.next()
            else: break
        rt = p.parse_type()
        ftype = None
        if rt[0] == 'ptr' and rt[1][0] == 'func' and (p.peek()[0] in ('glob', 'local') or p.peek()[1] in ('bitcast',)):
            # full function pointer type given (vararg or indirect): "call i32 (i8*, ...)* @printf(...)"? (old syntax)
            pass
        if rt[0] == 'func':
            # "call i32 (i8*, ...) @printf(...)": parse_type parsed only up to ret; handled below
            pass
        # LLVM prints "call RET (PARAMS...) @callee(args)" for vararg callee types: detect '(' before callee
        va_sig = None
        if p.at('('):
            # explicit function type: parse param list
            p.next(); ps = []; va = False
            while not p.at(')'):
                if p.peek()[0] == 'dots':
                    p.next(); va = True
                else:
                    ps.append(p.parse_type())
                if not p.accept(','): break
            p.expect(')')
            va_sig = (tuple(ps), va)
        # callee
        k, v = p.peek()
        callee_name = None; callee_local = None
        if k == 'glob':
            p.next(); callee_name = v[1:].strip('"')
        elif k == 'local':
            p.next(); callee_expr = fg.lname(v); callee_local = v
        elif k == 'ident' and v in ('bitcast', 'inttoptr', 'getelementptr', 'select'):
            # constant-expression callee; need its type: function pointer type unknown here -> parse generically
            p.next()
            callee_expr = self.constexpr(v, p, PTR(('func', rt, (), True)), fg)
        elif k == 'ident' and v == 'asm':
            raise IRError('inline asm')
        else:
            raise IRError('callee? %r' % (v,))
        p.expect('(')
        args = []
        while not p.at(')'):
            t = p.parse_type()
            info = p._skip_param_attrs()
            if t[0] == 'metadata':
                # metadata argument (dbg intrinsics): skip tokens to next top-level comma
                depth = 0
                while not (depth == 0 and (p.at(',') or p.at(')'))):
                    if p.peek()[0] == 'punct' and p.peek()[1] in '([{': depth += 1
                    if p.peek()[0] == 'punct' and p.peek()[1] in ')]}': depth -= 1
                    p.next()
                args.append(('0', t, info))
            else:
                e = self.value(p, t, fg)
                args.append((e, t, info))
            if not p.accept(','): break
        p.expect(')')
        # invoke tail: "to label %x unwind label %y"
        normal = None
        if is_invoke:
            while not p.at('to'): p.next()
            p.next(); p.expect('label'); normal = p.next()[1][1:].strip('"')
        result = None
        if callee_name is not None:
            result = self.intrinsic(fg, callee_name, rt, args, code, d)
            if result is None and callee_name in ('_Znwm', '_Znam') and d is not None and re.fullmatch(r'\d+(ULL|U)?', args[0][0]):
                # operator new(constant): give the dynamic object the struct type it is cast to, so CBMC keeps
                # field sensitivity (vptr fields stay constants)  -- same size, same layout
                n = int(re.match(r'\d+', args[0][0]).group(0))
                ty = self.new_type_hint(fg, d, n)
                if ty is not None:
                    dn = fg.lname(d); fg.decls[dn] = cg.ctype(rt); fg.vtypes[d] = rt
                    code.append('%s = (%s)malloc(sizeof(%s)); VERIF_ASSUME(%s != 0);' % (dn, cg.ctype(rt), cg.ctype(ty), dn))
                    result = ('stmt', None)
            if result is None and callee_name in ('_Znam', '_Znwm') and d is not None and self.opts.new_array_max \
               and not (callee_name == '_Znwm' and re.fullmatch(r'\d+(ULL|U)?', args[0][0])):
                # (operator new with a non-constant size is std::vector / allocator storage: same treatment, no cookie)
                # operator new[]: allocate a TYPED array object (cookie + elements) of constant size so that CBMC keeps
                # element/field sensitivity; a symbolic-size or byte-typed array holding pointers explodes in the solver
                hint = self.new_array_hint(fg, d, callee_name == '_Znwm')
                if hint is not None and callee_name == '_Znwm' and hint[0] != 0: hint = None
                if hint is not None:
                    cookie, et = hint
                    es = self.size_align(et)[0]
                    cm = re.fullmatch(r'(\d+)(ULL|U)?', args[0][0])
                    lim = min(self.opts.new_array_max, 64) if et == ('int', 8) else self.opts.new_array_max   # byte arrays stay field-sensitive (<= 64)
                    total = int(cm.group(1)) if cm else lim
                    k = max(1, (total - cookie) // es)
                    at = ('lstruct', ((('int', 64),) if cookie else ()) + (('array', k, et),), False)
                    dn = fg.lname(d); fg.decls[dn] = cg.ctype(rt); fg.vtypes[d] = rt
                    if not cm:
                        code.append('if (%s > %dULL) { VERIF_CHECK(0, "bound: operator new[] request larger than --new-array-max"); VERIF_ASSUME(0); }' % (args[0][0], lim))
                    code.append('%s = (%s)malloc(sizeof(%s)); VERIF_ASSUME(%s != 0);' % (dn, cg.ctype(rt), cg.ctype(at), dn))
                    result = ('stmt', None)
            if result is None:
                self.note_ref(callee_name, fg)
                cn = cg.gname(callee_name)
                fdef = self.mod.funcs.get(callee_name)
                if callee_name in self.mod.aliases and fdef is None:
                    pass
                # byval copies
                argexprs = self.byval_args(fg, args, code)
                if fdef is not None and fdef['vararg'] is False and len(fdef['params']) == len(args):
                    # cast args to the callee's declared C param types when they differ (bitcast-free calls)
                    fixed = []
                    for (e, t, info), (pt, _, _) in zip(args, fdef['params']):
                        ae = argexprs.pop(0)
                        fixed.append(ae if pt == t else '((%s)%s)' % (cg.ctype(pt), ae))
                    argexprs = fixed
                    call = '%s(%s)' % (cn, ', '.join(argexprs))
                    if fdef['ret'] != rt and rt != VOID:
                        call = '((%s)%s)' % (cg.ctype(rt), call)
                else:
                    call = '%s(%s)' % (cn, ', '.join(argexprs))
                result = ('expr', call)
        else:
            argexprs = self.byval_args(fg, args, code)
            fty = ('func', rt, tuple(t for _, t, _ in args), False)
            if va_sig is not None: fty = ('func', rt, va_sig[0], va_sig[1])
            cands = self.indirect_candidates(fg, callee_local, fty, 1 if (args and 'sret' in args[0][2]) else 0) if callee_local else None
            if cands is None or self.opts.no_devirt:
                call = '((%s)%s)(%s)' % (cg.functype_name(fty), callee_expr, ', '.join(argexprs))
                result = ('expr', call)
            else:
                dn = None
                if d is not None and rt != VOID:
                    dn = fg.lname(d); fg.decls[dn] = cg.ctype(rt); fg.vtypes[d] = rt
                stmt = ''
                if len(cands) == 1:
                    stmt = 'VERIF_CHECK((void*)%s == (void*)&%s, "indirect call target outside the candidate set (ir2c devirtualisation)"); ' % (callee_expr, cg.gname(cands[0]))
                for cn in cands:
                    fdef = self.mod.funcs[cn]
                    self.note_ref(cn, fg)
                    cargs = []
                    for ae, (pt, _, _), (_, at, _) in zip(argexprs, fdef['params'], args):
                        cargs.append(ae if pt == at else '((%s)%s)' % (cg.ctype(pt), ae))
                    call = '%s(%s)' % (cg.gname(cn), ', '.join(cargs))
                    if dn is not None:
                        call = '%s = %s' % (dn, call if fdef['ret'] == rt else '((%s)%s)' % (cg.ctype(rt), call))
                    if len(cands) == 1:
                        stmt += '%s;' % call
                    else:
                        stmt += 'if ((void*)%s == (void*)&%s) { %s; } else ' % (callee_expr, cg.gname(cn), call)
                if len(cands) != 1: stmt += '{ VERIF_CHECK(0, "indirect call target outside the candidate set (ir2c devirtualisation)"); VERIF_ASSUME(0); }'
                code.append(stmt)
                result = ('stmt', None)
        kind, ex = result
        if kind == 'expr':
            if d is not None and rt != VOID:
                self.define(fg, d, rt, ex, code)
            else:
                code.append('%s;' % ex)
        elif kind == 'stmt':
            pass
        if is_invoke:
            code.append(self.edge(fg, bn, normal))

    def size_align(self, t, depth=0):
        k = t[0]
        if depth > 40: return None
        if k == 'int':
            n = t[1]
            for w in (8, 16, 32, 64, 128):
                if n <= w: return (w // 8, w // 8)
            return None
        if k == 'float': return (4, 4)
        if k == 'double': return (8, 8)
        if k == 'fp80': return (16, 16)
        if k == 'ptr': return (8, 8)
        if k == 'array':
            sa = self.size_align(t[2], depth + 1)
            return None if sa is None else (sa[0] * t[1], sa[1])
        if k in ('struct', 'lstruct'):
            if k == 'struct':
                ent = self.mod.structs.get(t[1])
                if not ent or ent[0] is None: return None
                fields, packed = ent
            else:
                fields, packed = t[1], t[2]
            off = 0; al = 1
            for f in fields:
                sa = self.size_align(f, depth + 1)
                if sa is None: return None
                fa = 1 if packed else sa[1]
                off = (off + fa - 1) // fa * fa
                off += sa[0]; al = max(al, fa)
            off = (off + al - 1) // al * al
            return (off, al)
        return None
    def compat(self, a, b):
        if a == b: return True
        if a[0] == 'ptr' and b[0] == 'ptr': return True
        return False
    def sig_compat(self, fdef, fty):
        if fdef['vararg'] or len(fdef['params']) != len(fty[2]): return False
        if not (self.compat(fdef['ret'], fty[1])): return False
        return all(self.compat(pt, at) for (pt, _, _), at in zip(fdef['params'], fty[2]))
    def contains_struct(self, a, b, depth=0):
        """struct type a is b or has b among its (transitive) by-value members"""
        if a == b: return True
        if a[0] == 'struct' and b[0] == 'struct':
            # X.base (tail-padding variant of a base class) and X.NN (LLVM's duplicate of the same C++ type) are X
            canon = lambda n: re.sub(r'(\.base)?(\.\d+)?$', '', n)
            if canon(a[1]) == canon(b[1]): return True
        if depth > 12: return False
        if a[0] == 'struct':
            ent = self.mod.structs.get(a[1])
            if not ent or ent[0] is None: return False
            return any(self.contains_struct(f, b, depth + 1) for f in ent[0])
        if a[0] == 'lstruct': return any(self.contains_struct(f, b, depth + 1) for f in a[1])
        if a[0] == 'array': return self.contains_struct(a[2], b, depth + 1)
        return False
    def this_compat(self, fdef, fty, this_idx=0):
        """virtual call through static type T can only reach methods of classes that contain T as a base subobject"""
        if len(fty[2]) <= this_idx or len(fdef['params']) <= this_idx: return True
        st = fty[2][this_idx]; ct = fdef['params'][this_idx][0]     # `this` follows the sret slot when there is one
        if st[0] != 'ptr' or ct[0] != 'ptr': return True
        if st[1][0] != 'struct' or ct[1][0] != 'struct': return True
        # overrider in a derived class (ct contains st) or implementation inherited from a base (st contains ct)
        return self.contains_struct(ct[1], st[1]) or self.contains_struct(st[1], ct[1])
    def vtable_slots(self):
        """list of vtable arrays: each a list of function names / None, from _ZTV* globals"""
        if hasattr(self, '_vt'): return self._vt
        vt = []
        for name, g in self.mod.globals.items():
            if not name.startswith('_ZTV') or g['init'] is None: continue
            toks, i = g['init']
            # split into arrays at '[' ... ']' of the initialiser (after the type)
            cur = None; depth = 0
            j = i
            while j < len(toks):
                k, v = toks[j]
                if k == 'punct' and v == '[':
                    # could be a type "[5 x i8*]" or a value list; value list follows a type
                    # detect value list: next token is a type keyword 'i8' followed by '*'
                    if toks[j+1][1] == 'i8' and toks[j+2][1] == '*':
                        cur = []; j += 1
                        # parse entries separated by top-level commas until matching ']'
                        d2 = 0; ent = []
                        while True:
                            k2, v2 = toks[j]
                            if k2 == 'punct' and v2 in '([': d2 += 1
                            if k2 == 'punct' and v2 in ')]':
                                if d2 == 0: break
                                d2 -= 1
                            if k2 == 'punct' and v2 == ',' and d2 == 0:
                                cur.append(ent); ent = []
                            else:
                                ent.append(toks[j])
                            j += 1
                        cur.append(ent)
                        arr = []
                        for ent in cur:
                            fn = None
                            for k3, v3 in ent:
                                if k3 == 'glob' and v3[1:].strip('"') in self.mod.funcs:
                                    fn = v3[1:].strip('"')
                            arr.append(fn)
                        vt.append((name, arr))
                j += 1
        self._vt = vt
        return vt
    def address_taken(self):
        if hasattr(self, '_at'): return self._at
        at = set()
        gref = re.compile(r'@(?:"[^"]*"|[-a-zA-Z$._0-9]+)')
        for n in self.live:
            if n in self.mod.funcs:
                f = self.mod.funcs[n]
                if f['body'] is None or n in self.overrides: continue
                for l in f['body']:
                    if '@' not in l: continue
                    refs = gref.findall(l)
                    m = re.match(r'\s*(?:%\S+ = )?(?:tail |musttail |notail )?(?:call|invoke) [^@]*?(@(?:"[^"]*"|[-a-zA-Z$._0-9]+))\(', l)
                    skip = m.group(1) if m else None
                    for r in refs:
                        if r == skip:
                            skip = None; continue
                        nm = r[1:].strip('"')
                        if nm in self.mod.funcs: at.add(nm)
            elif n in self.mod.globals:
                g = self.mod.globals[n]
                if g['init'] is not None:
                    toks, i = g['init']
                    for k, v in toks[i:]:
                        if k == 'glob' and v[1:].strip('"') in self.mod.funcs: at.add(v[1:].strip('"'))
        self._at = at
        return at
    def indirect_candidates(self, fg, callee_local, fty, this_idx=0):
        """candidate targets of an indirect call. virtual-call pattern -> functions in that vtable slot;
        otherwise every address-taken function with a compatible signature. Completeness is asserted at
        the call site (unknown target = assertion failure), so a too-small set is never silent."""
        def pdef(name):
            """-> ('load', ptr_local, pointee_type) | ('gep', base_local, [const idx...]) | ('bitcast', src_local) | None"""
            tk = fg.defs.get(name)
            if not tk: return None
            p = P(tk, self.mod); p.next(); p.next()
            op = p.next()[1]
            try:
                if op == 'load':
                    p.accept('atomic'); p.accept('volatile')
                    t = p.parse_type(); p.expect(','); pt = p.parse_type()
                    k, v = p.next()
                    return ('load', v if k == 'local' else None, t)
                if op == 'getelementptr':
                    p.accept('inbounds')
                    bt = p.parse_type(); p.expect(','); pt = p.parse_type()
                    k, v = p.next()
                    idx = []
                    while p.accept(','):
                        if p.peek()[0] == 'md': break
                        it = p.parse_type(); k2, v2 = p.next()
                        idx.append(int(v2) if k2 == 'num' else None)
                    return ('gep', v if k == 'local' else None, idx)
                if op == 'bitcast':
                    ft = p.parse_type(); k, v = p.next()
                    return ('bitcast', v if k == 'local' else None)
            except IRError:
                return None
            return None
        slot = None
        d0 = pdef(callee_local)
        if d0 and d0[0] == 'load' and d0[1]:
            d1 = pdef(d0[1])
            if d1 and d1[0] == 'gep' and d1[1] and len(d1[2]) == 1 and d1[2][0] is not None:
                d2 = pdef(d1[1])
                if d2 and d2[0] == 'load': slot = d1[2][0]
            elif d1 and d1[0] == 'load' and d1[2][0] == 'ptr' and d1[2][1][0] == 'ptr' and d1[2][1][1][0] == 'func':
                slot = 0
        cands = []
        if slot is not None:
            for vname, arr in self.vtable_slots():
                if vname not in self.live: continue
                idx = 2 + slot
                if idx < len(arr) and arr[idx] is not None:
                    fn = arr[idx]
                    fdef = self.mod.funcs.get(fn)
                    if fdef and self.sig_compat(fdef, fty) and fn not in cands and self.this_compat(fdef, fty, this_idx): cands.append(fn)
            # vtables are only referenced by constructors: no live vtable with a compatible entry means no object
            # of such a class can exist on any path from the entry point -> empty set (guarded by the check)
            return cands
        for fn in sorted(self.address_taken()):
            fdef = self.mod.funcs.get(fn)
            if fdef and not fn.startswith('llvm.') and self.sig_compat(fdef, fty): cands.append(fn)
        return cands
    def new_array_hint(self, fg, d, plain_new=False):
        """(cookie_bytes, element_type) for the result %d of operator new[]: bitcast of the pointer itself (no cookie) or of
        the pointer advanced by an 8-byte array cookie"""
        body = fg.f['body']
        def cast_of(name):
            pat = re.compile(r'= bitcast i8\* ' + re.escape(name) + r' to ')
            for l in body:
                if pat.search(l):
                    toks = lex(l.strip()); p = P(toks, self.mod)
                    try:
                        while not p.at('to'): p.next()
                        p.next(); t = p.parse_type()
                    except IRError:
                        continue
                    if t[0] == 'ptr' and t[1] != ('int', 64) and self.size_align(t[1]): return t[1]
            return None
        def stored_as(name):
            # store i8* name, i8** %dst   with  %dst = bitcast T** %y to i8**
            pat = re.compile(r'^\s*store i8\* ' + re.escape(name) + r', i8\*\* (%[-\w.$"]+)')
            for l in body:
                m = pat.match(l)
                if m:
                    dpat = re.compile(r'^\s*' + re.escape(m.group(1)) + r' = bitcast (.+)\* (%[-\w.$"]+) to i8\*\*')
                    for l2 in body:
                        m2 = dpat.match(l2)
                        if m2:
                            try:
                                t = P(lex(m2.group(1)), self.mod).parse_type()
                            except IRError:
                                continue
                            # the destination is a T* cell, possibly wrapped in structs whose first member it is
                            for _ in range(12):
                                if t[0] == 'struct':
                                    ent = self.mod.structs.get(t[1])
                                    if not ent or not ent[0]: break
                                    t = ent[0][0]
                                elif t[0] == 'lstruct' and t[1]: t = t[1][0]
                                else: break
                            if t[0] == 'ptr' and self.size_align(t[1]): return t[1]
            return None
        t = cast_of(d) or stored_as(d)
        gep = re.compile(r'^\s*(%\S+) = getelementptr (?:inbounds )?i8, i8\* ' + re.escape(d) + r', i64 8\s*$')
        for l in body:
            m = gep.match(l.split(', !')[0])
            if m:
                t2 = cast_of(m.group(1)) or stored_as(m.group(1))
                if t2 is not None: return (8, t2)
        if t is not None: return (0, t)
        # no cookie and the storage is used as i64 elements (std::vector<uint64_t>)
        if plain_new and re.search(r'= bitcast i8\* ' + re.escape(d) + r' to i64\*', '\n'.join(body)): return (0, ('int', 64))
        # char arrays are used as i8* directly
        return (0, ('int', 8))
    def new_type_hint(self, fg, d, n):
        """struct type T with sizeof(T)==n that the result %d of operator new is bitcast to in this function"""
        pat = re.compile(r'= bitcast i8\* ' + re.escape(d) + r' to ')
        for l in fg.f['body']:
            if pat.search(l):
                toks = lex(l.strip())
                p = P(toks, self.mod)
                try:
                    while not p.at('to'): p.next()
                    p.next(); t = p.parse_type()
                except IRError:
                    continue
                if t[0] == 'ptr' and t[1][0] in ('struct', 'lstruct'):
                    sa = self.size_align(t[1])
                    if sa and sa[0] == n: return t[1]
        # an object that is only used as a cell of pointers (class with one smart-pointer member): pointer-typed, so that
        # the stored pointer keeps its provenance (a pointer stored into a byte array is read back via byte_extract)
        if n % 8 == 0 and n <= 32:
            for l in fg.f['body']:
                if pat.search(l) and re.search(r' to [^,]*\*\*\s*$', l.split(', !')[0]):
                    return ('array', n // 8, ('ptr', ('int', 8)))
        return None
    def byval_args(self, fg, args, code):
        out = []
        for e, t, info in args:
            if 'byval' in info:
                tmp = fg.tmp(self.cg.ctype(info['byval']))
                code.append('%s = *%s;' % (tmp, e))
                out.append('&%s' % tmp)
            else:
                out.append(e)
        return out

    def resolve_cstring(self, expr_tokens_text):
        return None

    def intrinsic(self, fg, name, rt, args, code, d):
        """returns ('expr', e) / ('stmt', None) if handled, else None"""
        cg = self.cg
        A = [a[0] for a in args]
        if name.startswith(NOP_INTRINSICS):
            if d is not None and rt != VOID:
                self.define(fg, d, rt, self.zero(rt), code)
            return ('stmt', None)
        if name == '__VERIFIER_assert':
            lab = self.label_of(A[1])
            code.append('VERIF_ASSERT(%s, %s);' % (A[0], c_string(lab)))
            return ('stmt', None)
        if name == '__VERIFIER_assume':
            code.append('VERIF_ASSUME(%s);' % A[0]); return ('stmt', None)
        if name == '__VERIFIER_cover':
            lab = self.label_of(A[0])
            code.append('VERIF_COVER(%s);' % c_string(lab)); return ('stmt', None)
        if not name.startswith('llvm.'): return None
        base = name
        lit = len(A) > 2 and re.fullmatch(r'\d+(ULL|U)?', A[2]) is not None
        if name.startswith('llvm.memcpy.'):
            return ('expr', ('VERIF_MEMCPY(%s, %s, %s)' if lit else 'verif_memcpy_v(%s, %s, %s)') % (A[0], A[1], A[2]))
        if name.startswith('llvm.memmove.'):
            return ('expr', ('VERIF_MEMMOVE(%s, %s, %s)' if lit else 'verif_memmove_v(%s, %s, %s)') % (A[0], A[1], A[2]))
        if name.startswith('llvm.memset.'):
            return ('expr', ('VERIF_MEMSET(%s, %s, %s)' if lit else 'verif_memset_v(%s, %s, %s)') % (A[0], A[1], A[2]))
        if name == 'llvm.trap':
            return ('expr', 'VERIF_TRAP()')
        m = re.fullmatch(r'llvm\.(smax|smin|umax|umin)\.i(\d+)', name)
        if m:
            t = args[0][1]; pred = {'smax': 'sgt', 'smin': 'slt', 'umax': 'ugt', 'umin': 'ult'}[m.group(1)]
            return ('expr', '(%s ? %s : %s)' % (self.icmp(pred, A[0], A[1], t), A[0], A[1]))
        m = re.fullmatch(r'llvm\.abs\.i(\d+)', name)
        if m:
            t = args[0][1]; st = cg.sctype(t)
            return ('expr', '((%s)((%s)%s < 0 ? (%s)(0 - %s) : %s))' % (cg.ctype(t), st, A[0], cg.ctype(t), A[0], A[0]))
        m = re.fullmatch(r'llvm\.(ctlz|cttz|ctpop)\.i(\d+)', name)
        if m:
            return ('expr', 'verif_%s%s(%s)' % (m.group(1), m.group(2), A[0]))
        m = re.fullmatch(r'llvm\.bswap\.i(\d+)', name)
        if m: return ('expr', 'verif_bswap%s(%s)' % (m.group(1), A[0]))
        m = re.fullmatch(r'llvm\.(fshl|fshr)\.i(\d+)', name)
        if m: return ('expr', 'verif_%s%s(%s, %s, %s)' % (m.group(1), m.group(2), A[0], A[1], A[2]))
        m = re.fullmatch(r'llvm\.(u|s)(add|sub|mul)\.with\.overflow\.i(\d+)', name)
        if m:
            w = int(m.group(3)); t = ('int', w)
            dn = fg.lname(d); fg.decls[dn] = cg.ctype(rt); fg.vtypes[d] = rt
            bi = {'add': '__builtin_add_overflow', 'sub': '__builtin_sub_overflow', 'mul': '__builtin_mul_overflow'}[m.group(2)]
            ty = cg.ctype(t) if m.group(1) == 'u' else cg.sctype(t)
            tmp = fg.tmp(ty)
            code.append('%s.f1 = %s((%s)%s, (%s)%s, &%s); %s.f0 = (%s)%s;' % (dn, bi, ty, A[0], ty, A[1], tmp, dn, cg.ctype(t), tmp))
            return ('stmt', None)
        m = re.fullmatch(r'llvm\.(u|s)(add|sub)\.sat\.i(\d+)', name)
        if m:
            return ('expr', 'verif_%s%s_sat%s(%s, %s)' % (m.group(1), m.group(2), m.group(3), A[0], A[1]))
        m = re.fullmatch(r'llvm\.expect\..*', name)
        if m: return ('expr', A[0])
        m = re.fullmatch(r'llvm\.(fabs|floor|ceil|trunc|sqrt|round|rint|nearbyint)\.(f64|f32)', name)
        if m:
            fn = m.group(1) + ('' if m.group(2) == 'f64' else 'f')
            return ('expr', '%s(%s)' % (fn, A[0]))
        m = re.fullmatch(r'llvm\.(fmuladd|fma)\.(f64|f32)', name)
        if m and m.group(1) == 'fmuladd':
            return ('expr', '((%s * %s) + %s)' % (A[0], A[1], A[2]))
        m = re.fullmatch(r'llvm\.(minnum|maxnum|copysign|pow)\.(f64|f32)', name)
        if m:
            fn = {'minnum': 'fmin', 'maxnum': 'fmax', 'copysign': 'copysign', 'pow': 'pow'}[m.group(1)] + ('' if m.group(2) == 'f64' else 'f')
            return ('expr', '%s(%s, %s)' % (fn, A[0], A[1]))
        if name.startswith('llvm.objectsize.'):
            return ('expr', '((%s)-1)' % cg.ctype(rt))
        if name.startswith('llvm.is.constant.'):
            return ('expr', '0')
        if name == 'llvm.stacksave':
            return ('expr', '((uint8_t*)0)')
        if name.startswith('llvm.launder.invariant.group') or name.startswith('llvm.strip.invariant.group'):
            return ('expr', A[0])
        raise IRError('unsupported intrinsic ' + name)

    def label_of(self, expr):
        """expr is the C expression for a pointer into a string global; resolve to the literal text"""
        m = re.search(r'&(\w+)\)', expr) or re.search(r'&(\w+)', expr)
        if m:
            for g, c in self.cg.gnames.items():
                if c == m.group(1) and g in self.strings:
                    bs = self.strings[g]
                    return bytes(bs).split(b'\0')[0].decode('latin1')
        raise IRError('assert label is not a string literal: ' + expr)

    # ------------------------------------------------------------------------- globals
    def gen_global(self, g):
        cg = self.cg
        t = g['type']; ct = cg.ctype(t); cn = cg.gname(g['name'])
        if g['init'] is None:
            return 'extern %s %s;' % (ct, cn), None
        toks, i = g['init']
        p = P(toks, self.mod); p.i = i
        init = self.value(p, t, None)
        init = self.strip_compound(init)
        return '%s %s;' % (ct, cn), '%s %s = %s;' % (ct, cn, init)
    def strip_compound(self, e):
        """turn '((T){...})' compound literals into plain brace initialisers (static-init friendly)"""
        # remove every "((struct X)" / "((uintN_t*)"?? only composite casts directly before '{'
        prev = None
        while prev != e:
            prev = e
            e = re.sub(r'\(\((?:struct \w+)\)(\{)', r'(\1', e)
        # now "( {...} )" -> "{...}": drop parens around braces
        out = []; stack = []
        i = 0
        res = list(e)
        # match parens that directly wrap a brace group
        pairs = {}
        st = []
        for idx, ch in enumerate(e):
            if ch in '({': st.append((ch, idx))
            elif ch in ')}':
                o, oi = st.pop()
                pairs[oi] = idx
        drop = set()
        for oi, ci in pairs.items():
            if e[oi] == '(' and oi + 1 < len(e) and e[oi+1] == '{' and pairs.get(oi+1) == ci - 1:
                drop.add(oi); drop.add(ci)
        return ''.join(ch for idx, ch in enumerate(e) if idx not in drop)

ORDERS = {'unordered': 0, 'monotonic': 0, 'acquire': 2, 'release': 3, 'acq_rel': 4, 'seq_cst': 5}
FMF = {'fast', 'nnan', 'ninf', 'nsz', 'arcp', 'contract', 'afn', 'reassoc'}

def c_string(s):
    out = '"'
    for ch in s:
        o = ord(ch)
        if ch in '"\\': out += '\\' + ch
        elif 32 <= o < 127: out += ch
        else: out += '\\%03o' % o
    return out + '"'

PRELUDE = r'''
#include <stdint.h>
#include <stddef.h>
typedef unsigned __int128 u128_t; typedef __int128 i128_t;
#include "verif_rt.h"
'''

def reachable(mod, entries, overrides):
    """names of functions/globals reachable from entries (text scan of @refs)"""
    seen = set(); work = list(entries)
    gref = re.compile(r'@(?:"[^"]*"|[-a-zA-Z$._0-9]+)')
    while work:
        n = work.pop()
        if n in seen: continue
        seen.add(n)
        texts = []
        if n in mod.funcs:
            f = mod.funcs[n]
            if f['body'] is not None and n not in overrides:
                texts = f['body']
        elif n in mod.globals:
            g = mod.globals[n]
            if g['init'] is not None:
                toks, i = g['init']
                texts = [' '.join(x[1] for x in toks[i:] if x[0] == 'glob')]
        elif n in mod.aliases:
            texts = [' '.join(x[1] for x in mod.aliases[n][1] if x[0] == 'glob')]
        for s in texts:
            for m in gref.findall(s):
                nm = m[1:].strip('"')
                if nm not in seen: work.append(nm)
    return seen

def main():
    ap = argparse.ArgumentParser()
    ap.add_argument('ll'); ap.add_argument('-o', required=True)
    ap.add_argument('--entry', action='append', default=[])
    ap.add_argument('--override', action='append', default=[])
    ap.add_argument('--no-nsw', dest='nsw', action='store_false', default=True)
    ap.add_argument('--fp-hooks', action='store_true')
    ap.add_argument('--no-devirt', action='store_true')
    ap.add_argument('--rpo', action='store_true', help='emit basic blocks in reverse post-order of the CFG instead of the textual order of the IR')
    ap.add_argument('--new-array-max', type=int, default=0, help='bytes given to every operator new[] of non-constant size (typed allocation)')
    ap.add_argument('--root', action='append', default=[], help='extra reachability root (function called only from C models)')
    ap.add_argument('--unreachable', action='append', default=[], help='function claimed unreachable: body replaced by a failing check + assume(0)')
    ap.add_argument('--list-external', help='write external (undefined) symbol list here')
    ap.add_argument('--list-functions', help='write names of translated functions here')
    opts = ap.parse_args()
    text = open(opts.ll).read()
    mod = parse_module(text)
    overrides = set(opts.override) | set(opts.unreachable)
    for e in opts.entry:
        if e not in mod.funcs: raise SystemExit('entry %s not in module' % e)
    # static initialisers (llvm.global_ctors) run before every entry point, as they do before main() natively
    gctors = []
    g = mod.globals.get('llvm.global_ctors')
    if g and g['init']:
        toks, i = g['init']
        gctors = [v[1:].strip('"') for k, v in toks[i:] if k == 'glob' and v[1:].strip('"') in mod.funcs]
    live = reachable(mod, list(opts.entry) + list(opts.root) + gctors, overrides)
    gen = Gen(mod, opts)
    gen.live = live; gen.overrides = overrides
    # string globals for label resolution
    for name, g in mod.globals.items():
        if g['init'] is not None:
            toks, i = g['init']
            if toks[i][0] == 'cstr': gen.strings[name] = cstr_bytes(toks[i][1])
    cg = gen.cg
    # naming: functions keep their (sanitised) names
    fn_protos = ['void verif_run_global_ctors(void);']; fn_bodies = []; externals = []; translated = []
    names = [n for n in mod.funcs if n in live]
    for n in names: cg.gname(n)
    for n in mod.globals:
        if n in live: cg.gname(n)
    for n in mod.aliases:
        if n in live: cg.gname(n)
    def proto(f):
        ps = [cg.ctype(t) for t, _, _ in f['params']]
        if f['vararg']: ps.append('...')
        return '%s %s(%s);' % (cg.ctype(f['ret']), cg.gname(f['name']), ', '.join(ps) if ps else 'void')
    for n in names:
        f = mod.funcs[n]
        if n.startswith('llvm.') or n in ('__VERIFIER_assert', '__VERIFIER_assume', '__VERIFIER_cover'): continue
        if n in ('malloc', 'free', 'memcpy', 'memmove', 'memset') and f['body'] is None:
            externals.append(n); continue     # prototypes come from verif_rt.h
        fn_protos.append(proto(f))
        if n in opts.unreachable and f['body'] is not None:
            ps = ', '.join('%s a%d' % (cg.ctype(t), k) for k, (t, _, _) in enumerate(f['params'])) or 'void'
            rt_ = cg.ctype(f['ret'])
            fn_bodies.append('%s %s(%s) {\n  VERIF_CHECK(0, "reached a function the harness declares unreachable: %s");\n  VERIF_ASSUME(0);\n%s}' %
                             (rt_, cg.gname(n), ps, n[:60], '' if f['ret'] == VOID else '  { %s r_; return r_; }\n'))
            if f['ret'] != VOID: fn_bodies[-1] = fn_bodies[-1].replace('{ %s r_;', '{ ' + rt_ + ' r_;')
            continue
        if f['body'] is None or n in overrides:
            externals.append(n); continue
        try:
            body, refs = gen.gen_function(f)
        except RecursionError:
            raise
        fn_bodies.append('\n'.join(body)); translated.append(n)
    gdecl = []; gdef = []
    for n, g in mod.globals.items():
        if n not in live: continue
        if n.startswith('llvm.'): continue
        if g['init'] is None: externals.append(n)
        dcl, dfn = gen.gen_global(g)
        gdecl.append(dcl)
        if dfn: gdef.append(dfn)
    alias_defs = []
    for n, (t, toks) in mod.aliases.items():
        if n not in live: continue
        # alias to function: "#define alias target" is enough for direct calls and address-of
        tgt = [x[1] for x in toks if x[0] == 'glob'][-1][1:].strip('"')
        alias_defs.append('#define %s %s' % (cg.gname(n), cg.gname(tgt)))
    fwdl, typedefs, tlines = cg.emit_types()
    # gen may register types lazily during function generation; emit_types after everything
    ctor_fn = 'static int verif_ctors_done;\nvoid verif_run_global_ctors(void) {\n  if (verif_ctors_done) return;\n  verif_ctors_done = 1;\n' + \
              ''.join('  %s();\n' % cg.gname(n) for n in gctors) + '}\n'
    fn_bodies.append(ctor_fn)
    with open(opts.o, 'w') as o:
        o.write('/* generated by ir2c.py from %s -- do not edit */\n' % opts.ll)
        o.write(PRELUDE)
        o.write('\n'.join(fwdl) + '\n')
        o.write('\n'.join(typedefs) + '\n')
        o.write('\n'.join(tlines) + '\n')
        o.write('\n'.join(alias_defs) + '\n')
        o.write('\n'.join(fn_protos) + '\n')
        o.write('\n'.join(gdecl) + '\n')
        o.write('\n'.join(gdef) + '\n')
        o.write('\n\n'.join(fn_bodies) + '\n')
    if opts.list_external:
        with open(opts.list_external, 'w') as o:
            o.write('\n'.join(sorted(externals)) + '\n')
    if opts.list_functions:
        with open(opts.list_functions, 'w') as o:
            o.write('\n'.join(sorted(translated)) + '\n')
    sys.stderr.write('ir2c: %d functions, %d globals, %d external\n' % (len(fn_bodies), len(gdef), len(externals)))

if __name__ == '__main__':
    sys.setrecursionlimit(10000)
    try:
        main()
    except IRError as e:
        sys.stderr.write('ir2c: ERROR: %s\n' % e)
        sys.exit(2)
