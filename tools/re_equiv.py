#!/usr/bin/env python3-vt
"""one regex-literal ≡ grammar obligation (runs under python3-vt: z3 python API). prints one JSON line."""
import json, os, sys, time
VERIF = os.path.dirname(os.path.dirname(os.path.abspath(__file__)))
sys.path.insert(0, os.path.join(VERIF, 'tools')); sys.path.insert(0, os.path.join(VERIF, 'props'))
import re2smt, common
ob = sys.argv[1]
lits, specname, L = common.REGEX_OBLIGATIONS[ob]
table = {c: (p, v) for c, p, v in common.regex_literals()}
if len(sys.argv) > 3 and sys.argv[2] == '--replay':
    # re-evaluate a stored counterexample: literal (python matcher over the CURRENT source literal) vs grammar (z3 evaluation)
    import z3
    bs = bytes.fromhex(sys.argv[3])
    alts = [re2smt.parse(re2smt.extract(*table[l])) for l in lits]
    impl = any(re2smt.match_py(a, bs) for a in alts)
    s = [z3.BitVecVal(bs[i] if i < len(bs) else 0, 8) for i in range(L)]
    spec = z3.is_true(z3.simplify(getattr(common, specname)(z3, s, z3.BitVecVal(len(bs), 16), L)))
    print('bytes=%r literal_accepts=%s grammar_accepts=%s %s' % (bs, impl, spec, 'DIFFERS' if impl != spec else 'agree'))
    sys.exit(0)
try:
    pats = [re2smt.extract(*table[l]) for l in lits]
    alts = [re2smt.parse(p) for p in pats]
    spec = getattr(common, specname)
    t0 = time.time()
    wit = re2smt.witness(alts, spec, min(L, 20))
    verdict, cex, dt, st = re2smt.equivalent(alts, spec, L, timeout_s=1500)
    sample = {'query': 'regex_equiv_' + ob, 'engine': 're2smt+z3 (QF_BV, NFA unrolled over a symbolic byte string)', 'literals': pats,
              'bound': 'every byte string of length <= %d' % L, 'verdict': verdict, 'wall_s': round(time.time() - t0, 2),
              'witness_violated': bool(wit)}
    r = {'verdict': verdict if wit or verdict != 'UNSAT' else 'INCONCLUSIVE', 'solver_s': dt, 'sample': sample, 'witness_runs': 2 if wit else 0, 'nontrivial': bool(wit)}
    if verdict == 'SAT':
        # replay: python reference matcher on the counterexample (the literal side) -- confirms the encoder, not std::regex
        impl = any(re2smt.match_py(a, cex) for a in alts)
        sample['counterexample_bytes'] = cex.hex(); sample['literal_accepts'] = impl
        r['label'] = 'regex literal %s differs from the documented grammar on %r (literal accepts: %s)' % (lits, cex, impl)
        r['cex'] = cex.hex()
    if verdict == 'UNKNOWN': r['verdict'] = 'INCONCLUSIVE'; r['detail'] = 'z3: ' + str(st)
    if not wit: r['detail'] = 'vacuous: literal accepts nothing or everything within 20 bytes'
except re2smt.ReError as e:
    r = {'verdict': 'INCONCLUSIVE', 'detail': 'regex literal outside the supported subset: %s' % e, 'sample': {'query': 'regex_equiv_' + ob, 'verdict': 'INCONCLUSIVE'}}
print(json.dumps(r))
