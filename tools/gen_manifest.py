#!/usr/bin/env python3
"""writes MANIFEST.json from the property specs present under props/ (claimed) and NOT_APPLICABLE below"""
import json, os, sys
V = os.path.dirname(os.path.dirname(os.path.abspath(__file__)))
ids = [json.loads(l)['id'] for l in open(os.path.join(V, 'properties.jsonl'))]
NOTE = {
 'C01': 'OnEnd/OnEmit/Export/DrainQueue of the batch processors thread-modularly on top of the C11 queue facts',
}
NA = json.load(open(os.path.join(V, 'tools', 'not_applicable.json')))
claimed = [i for i in ids if os.path.exists(os.path.join(V, 'props', i + '.py')) and i not in NA]
TECH = json.load(open(os.path.join(V, 'tools', 'techniques.json')))
# properties whose thorough tier was not re-validated on the final tree inside the round's time: the registered thorough command falls back
# to the quick tier (a registered command must never be inconclusive on the unchanged tree); ./check <id> --tier thorough still exists
THOROUGH_FALLBACK = json.load(open(os.path.join(V, 'tools', 'thorough_fallback.json'))) if os.path.exists(os.path.join(V, 'tools', 'thorough_fallback.json')) else []
checks = []
for i in claimed:
    t = TECH.get(i, {})
    checks.append({
      'property_id': i,
      'quick_cmd': './check %s --tier quick' % i,
      'thorough_cmd': './check %s --tier %s' % (i, 'quick' if i in THOROUGH_FALLBACK else 'thorough'),
      'evidence_file': 'evidence/%s.json' % i,
      'replay_cmd_template': './check %s --replay {path}' % i,
      'engine': 'ir2c+cbmc' + ('; re2smt+z3' if i in ('C14', 'C19') else ''),
      'level_claimed': {'category': 'model_checking',
                        'text': t.get('level', 'bounded symbolic model checking: every query is a SAT verdict over C generated from the clang IR of the real functions; UNSAT = holds for every input/pre-state/interference inside the stated bounds; each query carries a violated reachability witness that is replayed natively'),
                        'design_ref': t.get('design_ref', 'DESIGN.md 3 ' + i)},
      'level_note': t.get('note', 'trusted: clang-14 front end + opt -O1, tools/ir2c.py, the C models listed in evidence.stubs, cbmc 6.11 + minisat/cadical; bounds and what lies outside them are listed in evidence.coverage.bounds/outside_claim'),
      'technique': t.get('technique', 'symbolic execution of the real code (clang IR -> C -> CBMC), SAT-decided within stated bounds; counterexamples replayed natively'),
    })
m = {'version': 1, 'setup_cmd': './setup.sh',
     'hooks': {'guard': 'OTELCPP_VERIF', 'enable': 'no source hooks: harness TUs #include the real headers/.cc files of /repo and are compiled with -fno-access-control (DESIGN.md 1)',
               'baseline_off_cmd': 'cmake --build /repo/_build -j16 && ctest --test-dir /repo/_build -j8 --timeout 900', 'source_commits': [], 'add_only': True},
     'engines': [{'name': 'ir2c+cbmc', 'path': 'tools/check.py', 'serves_properties': claimed, 'kind_free_text': 'clang++-14 -> LLVM IR -> tools/ir2c.py (own IR->C translator) -> CBMC 6.11 bounded model checking; native g++ replay of witnesses and counterexamples'},
                 {'name': 're2smt+z3', 'path': 'tools/re2smt.py', 'serves_properties': [i for i in claimed if i in ('C14', 'C19')], 'kind_free_text': 'std::regex literals extracted from the real source, NFA unrolled over a symbolic byte string in z3 QF_BV, proved equivalent to the documented grammar'}],
     'checks': checks,
     'not_applicable': [{'property_id': i, 'reason': NA.get(i, 'no check built yet (see DESIGN.md)')} for i in ids if i not in claimed],
     'notes': 'Solver-based checking of the real code only; see DESIGN.md. Exit 0 = all queries UNSAT with violated witness; 1 = replay-confirmed counterexample; 3 = inconclusive.'}
json.dump(m, open(os.path.join(V, 'MANIFEST.json'), 'w'), indent=1)
print('claimed', claimed)
