#!/usr/bin/env python3
"""check.py -- decide one property by solver queries over the real code (DESIGN.md 2).

  ./check <id> --tier quick|thorough [--only QUERY] [--keep] [--jobs N]
  ./check <id> --replay <path>

Per harness TU:  clang++-14 (IR) -> opt-14 -O1 -> ir2c.py -> goto-cc -> cbmc per entry point.
Every query has an end-of-harness witness (must be violated) whose trace is replayed on the native
g++ build of the same harness against the real /repo code; every counterexample is replayed there
too and only reported if it reproduces.
Exit 0: all queries UNSAT with violated witness (open known findings printed as KNOWN-FINDING).
Exit 1: replay-confirmed counterexample (VIOLATION line).  Exit 3: inconclusive.
"""
import argparse, concurrent.futures, hashlib, importlib.util, json, os, re, resource, shutil, signal
import subprocess, sys, threading, time

VERIF = os.path.dirname(os.path.dirname(os.path.abspath(__file__)))
REPO = os.environ.get('VERIF_REPO', '/repo')
SCRATCH_ROOT = os.environ.get('VERIF_SCRATCH', '/var/tmp/otelverif')

INC = ['-I', REPO + '/api/include', '-I', REPO + '/sdk/include', '-I', REPO + '/sdk', '-I', REPO + '/ext/include',
       '-I', REPO, '-I', VERIF + '/harness']
DEFS = ['-DOPENTELEMETRY_ABI_VERSION_NO=1', '-DNDEBUG']
CLANG_FLAGS = ['-std=c++17', '-O1', '-fno-access-control', '-fno-vectorize', '-fno-slp-vectorize', '-fno-unroll-loops',
               '-fno-exceptions', '-fno-rtti', '-S', '-emit-llvm', '-Xclang', '-disable-llvm-passes', '-w']
OPT_FLAGS = ['-O1', '-S', '--vectorize-loops=false', '--vectorize-slp=false', '--disable-loop-unrolling']
GXX_FLAGS = ['-std=c++17', '-O1', '-g', '-fno-access-control', '-w', '-rdynamic', '-pthread']
CBMC_BASE = ['--unwinding-assertions', '--undefined-shift-check', '--object-bits', '12',
             '--drop-unused-functions', '--no-malloc-may-fail', '--trace', '--json-ui', '--verbosity', '8']
PRINT_LOCK = threading.Lock()

def log(*a):
    with PRINT_LOCK:
        print(*a, flush=True)

def run(cmd, timeout=None, mem_gb=None, cwd=None, stdout_path=None, kill_event=None):
    """run cmd; returns (rc, stdout_text, wall_s, maxrss_kb, timed_out)"""
    def pre():
        os.setsid()
        if mem_gb:
            lim = int(mem_gb * (1 << 30))
            resource.setrlimit(resource.RLIMIT_AS, (lim, lim))
    t0 = time.time()
    out_f = open(stdout_path, 'wb') if stdout_path else subprocess.PIPE
    p = subprocess.Popen(cmd, stdout=out_f, stderr=subprocess.STDOUT if not stdout_path else subprocess.PIPE,
                         cwd=cwd, preexec_fn=pre)
    timed_out = False
    res = {}
    def waiter():
        try:
            o, e = p.communicate()
            res['o'] = o; res['e'] = e
        except Exception as ex:
            res['o'] = b''; res['e'] = str(ex).encode()
    th = threading.Thread(target=waiter); th.start()
    if kill_event is None:
        th.join(timeout)
    else:
        t_end = time.time() + (timeout or 1e9)
        while th.is_alive() and time.time() < t_end and not kill_event.is_set():
            th.join(0.5)
    if th.is_alive():
        timed_out = True
        try: os.killpg(p.pid, signal.SIGKILL)
        except ProcessLookupError: pass
        th.join()
    wall = time.time() - t0
    if stdout_path:
        out_f.close()
        text = (res.get('e') or b'').decode('latin1')
    else:
        text = (res.get('o') or b'').decode('latin1')
    return p.returncode, text, wall, 0, timed_out

def load_spec(pid):
    path = os.path.join(VERIF, 'props', pid + '.py')
    if not os.path.exists(path):
        sys.exit('no spec for property ' + pid)
    sp = importlib.util.spec_from_file_location('spec_' + pid, path)
    m = importlib.util.module_from_spec(sp)
    m.REPO = REPO; m.VERIF = VERIF
    sp.loader.exec_module(m)
    return m

def load_known():
    p = os.path.join(VERIF, 'known_findings.json')
    if not os.path.exists(p): return []
    return json.load(open(p))['findings']

class Inconclusive(Exception):
    pass

# ----------------------------------------------------------------------------- build steps
class HarnessBuild:
    """artifacts for one (harness, defines) pair"""
    def __init__(self, spec, hname, extra_defs, work):
        self.spec = spec; self.hname = hname; self.h = spec.HARNESSES[hname]
        self.extra_defs = list(extra_defs)
        tag = hname + ('' if not extra_defs else '_' + hashlib.md5(' '.join(extra_defs).encode()).hexdigest()[:6])
        self.dir = os.path.join(work, tag); os.makedirs(self.dir, exist_ok=True)
        self.src = os.path.join(VERIF, 'harness', self.h['src'])
        self.entries = sorted({q['entry'] for q in spec.QUERIES if q['harness'] == hname})
        self.lock = threading.Lock()
        self.native_exe = None; self.native_err = None
        self.gb = {}; self.err = None
        self.functions_encoded = []
        self.externals = []
        self.ir_lines = 0
    def defs(self):
        return DEFS + ['-D' + d for d in self.h.get('defines', [])] + ['-D' + d for d in self.extra_defs]
    def inc(self):
        pre = []
        gi = self.h.get('gen_includes')
        if gi:
            if not hasattr(self, '_gen_inc'): self._gen_inc = gi(self.dir)
            for d in self._gen_inc: pre += ['-I', d]
        for d in self.h.get('include_first', []):
            pre += ['-I', d]
        return pre + INC
    def build_ir(self):
        h = self.h; d = self.dir
        raw = os.path.join(d, 'h.raw.ll'); ll = os.path.join(d, 'h.ll'); c = os.path.join(d, 'h.c')
        flags = list(CLANG_FLAGS)
        if h.get('exceptions'): flags.remove('-fno-exceptions')
        if h.get('rtti'): flags.remove('-fno-rtti')
        cmd = ['clang++-14'] + flags + self.inc() + self.defs() + h.get('cxxflags', []) + [self.src, '-o', raw]
        rc, out, w, _, to = run(cmd, timeout=600)
        if rc != 0: raise Inconclusive('clang failed for %s:\n%s' % (self.hname, out[-3000:]))
        overrides = list(h.get('overrides', []))
        noinline = set(overrides) | set(h.get('noinline', []))
        if noinline:
            txt = open(raw).read().split('\n')
            found = set()
            for i, l in enumerate(txt):
                if l.startswith('define '):
                    m = re.search(r'@("[^"]*"|[-a-zA-Z$._0-9]+)\(', l)
                    if m and m.group(1).strip('"') in noinline:
                        found.add(m.group(1).strip('"'))
                        l2 = re.sub(r'\balwaysinline\b', '', l)
                        if re.search(r' #\d+', l2):
                            l2 = re.sub(r' (#\d+)', r' noinline \1', l2, count=1)
                        else:
                            l2 = re.sub(r'\s*\{\s*$', ' noinline {', l2)
                        txt[i] = l2
            missing = set(overrides) - found
            # overrides may also be pure externals (declare) -- fine; but a name that is nowhere is a spec error
            body = '\n'.join(txt)
            for mname in missing:
                if ('@' + mname) not in body and ('@"' + mname + '"') not in body:
                    overrides.remove(mname)   # not used by this harness
            open(raw, 'w').write(body)
        rc, out, w, _, to = run(['opt-14'] + h.get('opt_flags', OPT_FLAGS) + [raw, '-o', ll], timeout=600)
        if rc != 0: raise Inconclusive('opt failed for %s:\n%s' % (self.hname, out[-3000:]))
        self.ir_lines = sum(1 for _ in open(ll))
        cmd = ['python3', os.path.join(VERIF, 'tools', 'ir2c.py'), ll, '-o', c, '--list-external', os.path.join(d, 'ext.txt'),
               '--list-functions', os.path.join(d, 'funcs.txt')]
        for e in self.entries: cmd += ['--entry', e]
        for o in overrides: cmd += ['--override', o]
        for r in h.get('roots', []): cmd += ['--root', r]
        # functions the harness declares unreachable (prefix match on the mangled name): checked, not assumed
        if h.get('unreachable'):
            names = re.findall(r'^define [^@]*@("[^"]*"|[-a-zA-Z$._0-9]+)\(', open(ll).read(), re.M)
            for pref in h['unreachable']:
                for nm in names:
                    nm = nm.strip('"')
                    if nm.startswith(pref): cmd += ['--unreachable', nm]
        cmd += h.get('ir2c_flags', [])
        rc, out, w, _, to = run(cmd, timeout=600)
        if rc != 0: raise Inconclusive('ir2c failed for %s:\n%s' % (self.hname, out[-3000:]))
        self.externals = open(os.path.join(d, 'ext.txt')).read().split()
        self.functions_encoded = open(os.path.join(d, 'funcs.txt')).read().split('\n')
        self.c = c
    def model_files(self):
        ms = ['env_cbmc.c', 'atomics_seq.c'] + self.h.get('models', [])
        if self.h.get('no_default_atomics'): ms.remove('atomics_seq.c')
        files = [os.path.join(VERIF, 'models', m) for m in ms]
        gen = self.h.get('gen_models')
        if gen:
            if not hasattr(self, '_gen'): self._gen = gen(self.dir)
            files += self._gen
        return files
    def build_gb(self, reach):
        key = 'reach' if reach else 'main'
        gb = os.path.join(self.dir, 'h.%s.gb' % key)
        cmd = ['goto-cc', '-o', gb, self.c] + self.model_files() + ['-I', os.path.join(VERIF, 'rt'), '-I', os.path.join(VERIF, 'models')]
        cmd += ['-D' + d for d in self.h.get('model_defines', [])]
        cmd.append('-D__CPROVER__')
        if os.environ.get('VERIF_NO_REACH'): cmd.append('-DVERIF_NO_REACH')
        rc, out, w, _, to = run(cmd, timeout=900)
        if rc != 0 or not os.path.exists(gb):
            raise Inconclusive('goto-cc failed for %s:\n%s' % (self.hname, out[-3000:]))
        if 'is not declared' in out:
            raise Inconclusive('goto-cc: implicit function declaration in %s:\n%s' % (self.hname, '\n'.join(l for l in out.split('\n') if 'is not declared' in l)[:1500]))
        self.gb[key] = gb
    def build_native(self):
        with self.lock:
            if self.native_exe or self.native_err: return
            exe = os.path.join(self.dir, 'native')
            if self.h.get('native_mode') == 'generated_c':
                # hook-dependent harnesses (rely/guarantee): replay runs the gcc build of the C generated from the real
                # code's IR together with the same models -- labelled as such in evidence
                objs = []
                for cs in [self.c] + [m for m in self.model_files() if not m.endswith('env_cbmc.c')]:
                    o = os.path.join(self.dir, 'n_' + os.path.basename(cs) + '.o')
                    cmd = ['gcc', '-O1', '-g', '-w', '-falign-functions=16', '-c', cs, '-o', o, '-I', os.path.join(VERIF, 'rt'), '-I', os.path.join(VERIF, 'models'), '-DVERIF_NATIVE'] + ['-D' + d for d in self.h.get('model_defines', [])]   # aligned functions: Itanium member-function pointers test bit 0 of the address
                    rc, out, w, _, to = run(cmd, timeout=600)
                    if rc != 0:
                        self.native_err = 'gcc failed on %s: %s' % (cs, out[-2000:]); return
                    objs.append(o)
                cmd = ['g++', '-std=c++17', '-O1', '-g', '-w', '-rdynamic', os.path.join(VERIF, 'rt', 'native_driver.cc')] + objs + ['-o', exe, '-ldl', '-lm']
                rc, out, w, _, to = run(cmd, timeout=600)
                if rc != 0:
                    self.native_err = 'link failed for %s:\n%s' % (self.hname, out[-3000:]); return
                self.native_exe = exe
                return
            flags = list(GXX_FLAGS)
            if self.h.get('native_sanitize', True): flags += ['-fsanitize=address,undefined', '-fno-sanitize-recover=undefined', '-fno-sanitize=vptr', '-fno-omit-frame-pointer']
            if not self.h.get('exceptions'): flags.append('-fno-exceptions')
            srcs = [self.src, os.path.join(VERIF, 'rt', 'native_driver.cc')]
            csrcs = [os.path.join(VERIF, 'models', m) for m in self.h.get('native_models', [])]
            objs = []
            for cs in csrcs:
                o = os.path.join(self.dir, os.path.basename(cs) + '.o')
                rc, out, w, _, to = run(['gcc', '-O1', '-g', '-w', '-c', cs, '-o', o, '-I', os.path.join(VERIF, 'rt'), '-I', os.path.join(VERIF, 'models'), '-DVERIF_NATIVE'], timeout=300)
                if rc != 0:
                    self.native_err = 'gcc failed on %s: %s' % (cs, out[-2000:]); return
                objs.append(o)
            cmd = ['g++'] + flags + self.inc() + self.defs() + ['-DVERIF_NATIVE'] + self.h.get('cxxflags', []) + srcs + objs + ['-o', exe, '-ldl'] + self.h.get('native_ldflags', [])
            rc, out, w, _, to = run(cmd, timeout=900)
            if rc != 0:
                self.native_err = 'g++ failed for %s:\n%s' % (self.hname, out[-3000:]); return
            self.native_exe = exe
    def replay(self, entry, vec, path):
        """returns (exit_code, output)"""
        self.build_native()
        if not self.native_exe: raise Inconclusive(self.native_err)
        with open(path, 'w') as f:
            for ty, bits in vec: f.write('%s %x\n' % (ty, bits))
        env = dict(os.environ, ASAN_OPTIONS='detect_leaks=0:abort_on_error=0:exitcode=20', UBSAN_OPTIONS='exitcode=21:print_stacktrace=0')
        if self.h.get('native_mode') == 'generated_c': env['VERIF_EXACT'] = '1'
        p = subprocess.run([self.native_exe, entry, path], stdout=subprocess.PIPE, stderr=subprocess.STDOUT, timeout=120, env=env)
        return p.returncode, p.stdout.decode('latin1')

TYPEMAP = {'uint8_t': 'u8', 'uint16_t': 'u16', 'uint32_t': 'u32', 'uint64_t': 'u64', 'double': 'f64', 'float': 'f32',
           'unsigned char': 'u8', 'unsigned short': 'u16', 'unsigned int': 'u32', 'unsigned long': 'u64',
           'unsigned long int': 'u64', 'unsigned short int': 'u16'}
FN2TY = {'nondet_u8': 'u8', 'nondet_u16': 'u16', 'nondet_u32': 'u32', 'nondet_u64': 'u64', 'nondet_double': 'f64',
         'nondet_float': 'f32', 'nondet_bool': 'u8', 'nondet_model_u8': 'mu8', 'nondet_model_u32': 'mu32',
         'nondet_model_u64': 'mu64', 'nondet_model_double': 'mf64'}

def trace_vector(trace):
    vec = []
    for s in trace:
        if s.get('stepType') == 'assignment' and s.get('lhs') == 'verif_nd' and not s.get('hidden'):
            fn = s.get('sourceLocation', {}).get('function', '')
            ty = FN2TY.get(fn)
            if ty is None: continue
            b = s['value'].get('binary')
            if b is None:
                bits = int(s['value']['data'])
            else:
                bits = int(b, 2)
            vec.append((ty, bits))
    return vec

def parse_cbmc_json(text):
    """returns (results list or None, messages, stats)"""
    try:
        j = json.loads(text)
    except Exception:
        # truncated output (killed): try to salvage nothing
        return None, [text[-2000:]], {}
    results = None; msgs = []; stats = {}
    for e in j:
        if 'result' in e: results = e['result']
        elif 'messageText' in e:
            t = e['messageText']
            if e.get('messageType') in ('ERROR', 'WARNING') and 'provided with unwindset' not in t and 'pointer parameter types differ' not in t \
               and 'conflicting return types' not in t:
                msgs.append(e['messageType'] + ': ' + t)
            m = re.search(r'(\d+) variables, (\d+) clauses', t)
            if m: stats['sat_vars'] = int(m.group(1)); stats['sat_clauses'] = int(m.group(2))
            m = re.search(r'size of program expression: (\d+) steps', t)
            if m: stats['program_steps'] = int(m.group(1))
            m = re.search(r'Runtime Solver: ([\d.]+)s', t)
            if m: stats['solver_s'] = stats.get('solver_s', 0.0) + float(m.group(1))
            m = re.search(r'Runtime decision procedure: ([\d.]+)s', t)
            if m: stats['decision_s'] = stats.get('decision_s', 0.0) + float(m.group(1))
    return results, msgs, stats

class QueryResult:
    def __init__(self, q):
        self.q = q; self.verdict = None; self.detail = ''; self.wall = 0.0; self.stats = {}
        self.witness_ok = False; self.witness_replayed = False; self.failed = []   # list of dict(label, vec, native)
        self.reach_missing = []; self.n_props = 0; self.lines = []; self.known = []
        self.ub_unconfirmed = []; self.samples = []

_LOOPS = {}
def loops_of(gb):
    if gb not in _LOOPS:
        p = subprocess.run(['cbmc', gb, '--show-loops'], stdout=subprocess.PIPE, stderr=subprocess.DEVNULL)
        _LOOPS[gb] = re.findall(r'^Loop (\S+):', p.stdout.decode('latin1'), re.M)
    return _LOOPS[gb]

def cbmc_cmd(gb, q, reach):
    cmd = ['cbmc', gb, '--function', q['entry']]
    base = list(CBMC_BASE)
    if reach:
        base = ['--drop-unused-functions', '--no-malloc-may-fail', '--json-ui', '--no-standard-checks']
    cmd += base
    # every loop gets an explicit bound: q['unwind'] by default, q['unwindset'] (substring of the loop id ->
    # bound, longest match wins) where given; the global --unwind then only governs recursion depth
    us = {}
    for lid in loops_of(gb):
        best = None
        for pat, n in (q.get('unwindset') or {}).items():
            if pat in lid and (best is None or len(pat) > len(best[0])): best = (pat, n)
        # literal-size memset/memcpy helpers unroll concretely; give them room unless the spec says otherwise
        us[lid] = best[1] if best else (max(q.get('unwind', 2), 140) if lid.startswith('verif_memset_v') else q.get('unwind', 2))
    if us: cmd += ['--unwindset', ','.join('%s:%d' % kv for kv in us.items())]
    cmd += ['--unwind', str(q.get('rec_unwind', 2))]
    if reach or q.get('no_unwinding_assertions'):
        if '--unwinding-assertions' in cmd: cmd.remove('--unwinding-assertions')
        if not reach: cmd.append('--no-unwinding-assertions') if False else None
    solver = q.get('solver', 'cadical')
    if solver == 'cadical': cmd += ['--sat-solver', 'cadical']
    elif solver == 'kissat': cmd += ['--external-sat-solver', 'kissat']
    elif solver == 'minisat': pass
    if not reach: cmd += q.get('flags', [])
    return [c for c in cmd if c]

def run_query(spec, hb, q, args, known):
    qr = QueryResult(q)
    t0 = time.time()
    name = q['name']
    timeout = args.timeout or q.get('timeout', 300 if args.tier == 'quick' else 1800)
    mem = q.get('mem_gb', 12 if args.tier == 'quick' else 20)
    try:
        # ---- main run (portfolio over SAT back ends: first verdict wins)
        solvers = q.get('solvers') or [q.get('solver', 'minisat')]
        out_path = None
        if len(solvers) == 1:
            out_path = os.path.join(hb.dir, 'q_%s.json' % name)
            q1 = dict(q, solver=solvers[0])
            cmd = cbmc_cmd(hb.gb['main'], q1, False)
            rc, err, wall, _, to = run(cmd, timeout=timeout, mem_gb=mem, stdout_path=out_path)
            qr.solver = solvers[0]
        else:
            done = threading.Event(); box = {}
            procs = []
            def one(sv):
                op = os.path.join(hb.dir, 'q_%s.%s.json' % (name, sv))
                c = cbmc_cmd(hb.gb['main'], dict(q, solver=sv), False)
                r = run(c, timeout=timeout, mem_gb=mem, stdout_path=op, kill_event=done)
                if not r[4] and not done.is_set() and parse_cbmc_json(open(op, errors='replace').read())[0] is not None:
                    if 'win' not in box:
                        box['win'] = (sv, op, c, r); done.set()
                box.setdefault('all', []).append((sv, op, c, r))
            ths = [threading.Thread(target=one, args=(sv,)) for sv in solvers]
            for t in ths: t.start()
            for t in ths: t.join()
            if 'win' in box:
                sv, out_path, cmd, (rc, err, wall, _, to) = box['win']; to = False
            else:
                sv, out_path, cmd, (rc, err, wall, _, to) = box['all'][0]
            qr.solver = sv
        qr.wall = wall; qr.cmd = ' '.join(cmd)
        if to:
            qr.verdict = 'INCONCLUSIVE'; qr.detail = 'timeout after %ds' % timeout; return qr
        text = open(out_path, errors='replace').read()
        results, msgs, stats = parse_cbmc_json(text)
        qr.stats = stats
        if results is None:
            qr.verdict = 'INCONCLUSIVE'; qr.detail = 'cbmc gave no result (rc=%s): %s' % (rc, ' | '.join(msgs)[-1500:] or err[-500:]); return qr
        nobody = [m for m in msgs if 'no body for function' in m or 'no body for callee' in m]
        allowed = set(q.get('allow_no_body', [])) | {'__VERIFIER_nondet_uchar', '__VERIFIER_nondet_ushort', '__VERIFIER_nondet_uint',
                                                      '__VERIFIER_nondet_ulong', '__VERIFIER_nondet_double', '__VERIFIER_nondet_float'}
        bad = []
        for m in nobody:
            mm = re.search(r'no body for (?:function|callee) (\S+)', m)
            if mm and mm.group(1) not in allowed: bad.append(mm.group(1))
        if bad:
            qr.verdict = 'INCONCLUSIVE'; qr.detail = 'functions without body (would be silently nondet): ' + ' '.join(sorted(set(bad))); return qr
        qr.n_props = len(results)
        witness = None; cands = []; unwind_fail = []; reached = set(); undecided = []
        all_reach = {r.get('description', '')[len('WITNESS reach: '):] for r in results if r.get('description', '').startswith('WITNESS reach: ')}
        for r in results:
            desc = r.get('description', '')
            if r['status'] == 'SUCCESS': continue
            if r['status'] not in ('FAILURE',):
                undecided.append((r.get('property'), r['status'])); continue
            if desc.startswith('WITNESS reach: '):
                reached.add(desc[len('WITNESS reach: '):]); continue
            if desc.startswith('WITNESS'):
                witness = r; continue
            if '.no-body.' in r.get('property', ''):
                fn = r['property'].split('.no-body.')[1]
                if fn not in allowed: bad.append(fn)
                continue
            if 'unwinding assertion' in desc or r.get('property', '').find('.unwind.') >= 0 or 'recursion unwinding' in desc:
                unwind_fail.append(r.get('property')); continue
            cands.append(r)
        if bad:
            qr.verdict = 'INCONCLUSIVE'; qr.detail = 'functions without body (would be silently nondet): ' + ' '.join(sorted(set(bad))); return qr
        if unwind_fail and not cands:
            qr.verdict = 'INCONCLUSIVE'; qr.detail = 'unwinding assertion failed (bound too small): ' + ' '.join(unwind_fail[:5]); return qr
        if undecided and not cands:
            # cbmc leaves properties UNKNOWN once others have failed; without any failure that is an undecided query
            qr.verdict = 'INCONCLUSIVE'; qr.detail = 'property %s status %s (%d undecided)' % (undecided[0][0], undecided[0][1], len(undecided)); return qr
        if witness is None and cands:
            witness = {'trace': []}; qr.detail = 'end witness undecided (other properties failed)'
            no_witness_replay = True
        if witness is None:
            qr.verdict = 'INCONCLUSIVE'; qr.detail = 'vacuous: end-of-harness witness not reachable (assumptions unsatisfiable or harness never returns)'; return qr
        qr.witness_ok = True
        # ---- witness replay on the native build of the real code
        wvec = trace_vector(witness.get('trace', []))
        if not args.no_native and not q.get('no_native') and not locals().get('no_witness_replay'):
            code, out = hb.replay(q['entry'], wvec, os.path.join(hb.dir, 'w_%s.vec' % name))
            full = ('consumed=%d of %d' % (len(wvec), len(wvec))) in out
            # exit 10 = the end was reached but an assertion failed on the way: the witness input happens to be a
            # counterexample too (assertions do not block paths); that is still a faithful replay
            if (code not in (0, 10) or not full) and cands and (code in (20, 21) or code < 0):
                pass      # the witness input itself trips a sanitizer natively: a counterexample is about to be replayed
            elif code not in (0, 10) or not full:
                qr.verdict = 'INCONCLUSIVE'
                qr.detail = 'witness trace does not replay on the native build (encoding/model mismatch): exit %d: %s' % (code, out[-800:])
                return qr
            qr.witness_replayed = code in (0, 10) and full
        qr.samples.append({'witness_input_vector': ['%s:%x' % v for v in wvec[:64]], 'n_values': len(wvec)})
        # ---- counterexamples
        seen_labels = set()
        for r in cands:
            label = r.get('description', '')
            pclass = r.get('sourceLocation', {}).get('propertyClass', '') or r.get('property', '')
            if label in seen_labels: continue
            seen_labels.add(label)
            vec = trace_vector(r.get('trace', []))
            ent = {'label': label, 'property': r.get('property'), 'vec': vec, 'class': pclass}
            builtin = not (r.get('property', '').find('.assertion.') >= 0)
            if args.no_native or q.get('no_native'):
                ent['native'] = 'skipped'
            else:
                code, out = hb.replay(q['entry'], vec, os.path.join(hb.dir, 'c_%s_%d.vec' % (name, len(qr.failed))))
                ent['native_exit'] = code; ent['native_out'] = out[-1500:]
                if code == 10 and (('ASSERT-FAIL ' + label) in out or builtin or label.startswith('UB:')):
                    ent['native'] = 'reproduced'
                elif code in (20, 21) or 'runtime error' in out or 'AddressSanitizer' in out:
                    ent['native'] = 'reproduced-sanitizer'
                elif code == 10:
                    ent['native'] = 'reproduced-other-label'
                elif code < 0:
                    ent['native'] = 'reproduced-crash'
                else:
                    ent['native'] = 'not-reproduced'
                if ent['native'] == 'not-reproduced' and q.get('concretise'):
                    # abstracted query: the solver's input need not violate the real code, but an input derived from the
                    # abstract values may. Candidates come from the spec; only a natively failing one is reported.
                    for k_, alt in enumerate(q['concretise'](vec)):
                        code2, out2 = hb.replay(q['entry'], alt, os.path.join(hb.dir, 'c_%s_%d_alt%d.vec' % (name, len(qr.failed), k_)))
                        if code2 == 10 and ('ASSERT-FAIL ' + label) in out2:
                            ent['native'] = 'reproduced'; ent['vec'] = alt; ent['native_out'] = out2[-800:]; ent['concretised'] = True
                            break
            qr.failed.append(ent)
        # ---- reachability of every harness assertion (witnesses are part of the same run)
        optional = set(q.get('optional_reach', []))
        qr.reach_total = len(all_reach)
        qr.reach_missing = sorted(l for l in all_reach - reached if l not in optional)
        qr.verdict = 'DONE'
        return qr
    except Inconclusive as e:
        qr.verdict = 'INCONCLUSIVE'; qr.detail = str(e); return qr
    except Exception as e:
        import traceback
        qr.verdict = 'INCONCLUSIVE'; qr.detail = 'runner exception: ' + traceback.format_exc()[-1500:]; return qr
    finally:
        if qr.wall == 0.0: qr.wall = time.time() - t0

def main():
    ap = argparse.ArgumentParser()
    ap.add_argument('pid')
    ap.add_argument('--tier', default=os.environ.get('VERIF_TIER', 'quick'), choices=['quick', 'thorough'])
    ap.add_argument('--only', action='append', default=[])
    ap.add_argument('--keep', action='store_true')
    ap.add_argument('--jobs', type=int, default=int(os.environ.get('VERIF_JOBS', '14')))
    ap.add_argument('--replay')
    ap.add_argument('--no-native', action='store_true')
    ap.add_argument('--no-reach', action='store_true')
    ap.add_argument('--no-evidence', action='store_true')
    ap.add_argument('--timeout', type=int, help='override per-query timeout (development)')
    args = ap.parse_args()
    seed = int(os.environ.get('VERIF_SEED', '0') or 0)
    t_start = time.time()
    spec = load_spec(args.pid)
    pid = args.pid
    known_all = [k for k in load_known() if k['property'] == pid]
    work = os.path.join(SCRATCH_ROOT, '%s.%d' % (pid, os.getpid()))
    os.makedirs(work, exist_ok=True)
    rc_final = 3
    try:
        if args.replay:
            rc_final = do_replay(spec, args, work); return rc_final
        extra = getattr(spec, 'extra_engine', None)
        queries = [q for q in spec.QUERIES if (args.tier == 'thorough' or q.get('tier', 'quick') == 'quick' or q['name'] in args.only)]
        if args.only: queries = [q for q in queries if q['name'] in args.only or any(o.endswith('*') and q['name'].startswith(o[:-1]) for o in args.only)]
        # harness builds needed: (harness, kf-defines)
        builds = {}
        plan = []   # (query, build key, kf or None)
        for q in queries:
            kfs = [k for k in known_all if k['status'] == 'open' and k.get('query') and re.fullmatch(k['query'], q['name'])]
            key = (q['harness'], ())
            builds.setdefault(key, None); plan.append((q, key, None))
            if kfs:
                defs = tuple(sorted(k['exclusion_define'] for k in kfs))
                key2 = (q['harness'], defs)
                builds.setdefault(key2, None)
                q2 = dict(q); q2['name'] = q['name'] + '+excl'; q2['_excl_of'] = q['name']; q2['_kfs'] = kfs
                plan.append((q2, key2, kfs))
        hbs = {}
        for key in builds:
            hbs[key] = HarnessBuild(spec, key[0], key[1], work)
            # the exclusion build must know the +excl entries
        build_errs = {}
        def build(key):
            hb = hbs[key]
            try:
                hb.build_ir()
                with concurrent.futures.ThreadPoolExecutor(3) as ex:
                    fs = [ex.submit(hb.build_gb, False)]
                    if not args.no_native: fs.append(ex.submit(hb.build_native))
                    for f in fs: f.result()
            except Inconclusive as e:
                build_errs[key] = str(e)
        with concurrent.futures.ThreadPoolExecutor(max(1, min(len(hbs), args.jobs // 2 or 1))) as ex:
            list(ex.map(build, list(hbs)))
        results = []
        with concurrent.futures.ThreadPoolExecutor(args.jobs) as ex:
            futs = []
            for q, key, kfs in plan:
                if key in build_errs:
                    qr = QueryResult(q); qr.verdict = 'INCONCLUSIVE'; qr.detail = build_errs[key]; results.append(qr); continue
                futs.append(ex.submit(run_query, spec, hbs[key], q, args, known_all))
            for f in futs: results.append(f.result())
        # second engine (e.g. re2smt) results
        extra_results = []
        if extra is not None:
            extra_results = extra(args, work)
        rc_final = conclude(spec, args, results, extra_results, known_all, hbs, seed, time.time() - t_start)
        return rc_final
    finally:
        if not args.keep:
            shutil.rmtree(work, ignore_errors=True)
        else:
            log('kept work dir', work)

def save_replay(pid, qname, label, entry, harness, vec, extra_defs=()):
    d = os.path.join(VERIF, 'replays', pid); os.makedirs(d, exist_ok=True)
    h = hashlib.md5((qname + label).encode()).hexdigest()[:8]
    path = os.path.join(d, '%s_%s.json' % (qname, h))
    json.dump({'property': pid, 'query': qname, 'label': label, 'entry': entry, 'harness': harness,
               'defines': list(extra_defs), 'vector': [[t, '%x' % b] for t, b in vec]}, open(path, 'w'), indent=1)
    return path

def do_replay(spec, args, work):
    r = json.load(open(args.replay))
    if r.get('engine') == 're2smt':
        ob = r['query'][len('regex_equiv_'):]
        p = subprocess.run(['python3-vt', os.path.join(VERIF, 'tools', 're_equiv.py'), ob, '--replay', r['counterexample_bytes_hex']], stdout=subprocess.PIPE)
        out = p.stdout.decode(); print(out)
        if 'DIFFERS' in out:
            print('VIOLATION property=%s replay=%s' % (r['property'], args.replay)); return 1
        return 0
    hb = HarnessBuild(spec, r['harness'], r.get('defines', []), work)
    vec = [(t, int(b, 16)) for t, b in r['vector']]
    code, out = hb.replay(r['entry'], vec, os.path.join(hb.dir, 'replay.vec'))
    print(out)
    if code in (10, 20, 21) or code < 0:
        print('VIOLATION property=%s replay=%s' % (r['property'], args.replay)); return 1
    print('replay: no failure (exit %d)' % code)
    return 0 if code == 0 else 3

def conclude(spec, args, results, extra_results, known_all, hbs, seed, wall):
    pid = args.pid
    violations = []; inconcl = []; known_lines = []; ub_unconf = []
    by_name = {r.q['name']: r for r in results}
    samples = []; discharged = 0; obligations = 0; nontrivial = 0; evals = 0; witness_runs = 0; traces_validated = 0
    solver_time = 0.0
    for r in results:
        q = r.q
        evals += 1
        if q.get('_excl_of'):
            # exclusion twin of a query with open known findings: must be clean
            pass
        obligations += 1
        solver_time += r.stats.get('decision_s', r.stats.get('solver_s', 0.0))
        s = {'query': q['name'], 'harness': q['harness'], 'entry': q['entry'], 'unwind': q.get('unwind', 2),
             'unwindset': q.get('unwindset'), 'shape': q.get('shape', ''), 'verdict': None, 'wall_s': round(r.wall, 2),
             'properties_checked': r.n_props, 'sat_vars': r.stats.get('sat_vars'), 'sat_clauses': r.stats.get('sat_clauses'),
             'solver_s': r.stats.get('decision_s', r.stats.get('solver_s')), 'sat_backend': getattr(r, 'solver', None), 'witness_violated': r.witness_ok,
             'witness_trace_replayed_on_real_code': r.witness_replayed,
             'replay_target': 'gcc build of the C generated from the real IR + models (hooks needed)' if getattr(spec, 'HARNESSES', {}).get(q['harness'], {}).get('native_mode') == 'generated_c' else 'g++ build of the harness against the real /repo sources'}
        if r.verdict == 'INCONCLUSIVE':
            s['verdict'] = 'INCONCLUSIVE'; s['detail'] = r.detail[:600]
            inconcl.append((q['name'], r.detail)); samples.append(s); continue
        if r.witness_ok: witness_runs += 1
        if r.witness_replayed: traces_validated += 1
        if r.samples: s['witness_sample'] = r.samples[0]
        if r.reach_missing:
            s['verdict'] = 'INCONCLUSIVE'; s['detail'] = 'assertions not reachable: ' + '; '.join(r.reach_missing)
            inconcl.append((q['name'], s['detail'])); samples.append(s); continue
        open_kfs = [k for k in known_all if k['status'] == 'open' and k.get('query') and re.fullmatch(k['query'], q.get('_excl_of') or q['name'])]
        real_fail = []
        for f in r.failed:
            if f['native'] in ('reproduced', 'reproduced-sanitizer', 'reproduced-crash', 'reproduced-other-label', 'skipped'):
                real_fail.append(f)
            else:
                # not reproduced natively
                if f['class'] in ('pointer_arithmetic', 'overflow') or 'pointer arithmetic' in f['label'] or 'overflow' in f['label']:
                    ub_unconf.append({'query': q['name'], 'label': f['label']})
                else:
                    inconcl.append((q['name'], 'counterexample for "%s" did not reproduce natively (exit %s): %s' %
                                    (f['label'], f.get('native_exit'), f.get('native_out', '')[-300:])))
        if real_fail:
            s['verdict'] = 'SAT'
            s['counterexamples'] = [{'label': f['label'], 'native': f['native'], 'input_vector': ['%s:%x' % v for v in f['vec'][:64]]} for f in real_fail]
            for f in real_fail:
                matched = [k for k in open_kfs if k['assertion_label'] == f['label']]
                if matched and not q.get('_excl_of'):
                    for k in matched:
                        known_lines.append('KNOWN-FINDING: property=%s %s [%s] %s' % (pid, k['id'], q['name'], k['text']))
                        r.known.append(k['id'])
                else:
                    hb = [h for key, h in hbs.items() if key[0] == q['harness']][0]
                    path = save_replay(pid, q['name'], f['label'], q['entry'], q['harness'], f['vec'],
                                       [k['exclusion_define'] for k in q.get('_kfs', [])] if q.get('_excl_of') else [])
                    violations.append((q['name'], f['label'], path, f['native']))
        else:
            s['verdict'] = 'UNSAT'
            if not any(n == q['name'] for n, _ in inconcl):
                discharged += 1
                if r.witness_ok: nontrivial += 1
        if r.failed and not real_fail: s['verdict'] = s['verdict'] or 'UNSAT?'
        samples.append(s)
    # a query whose only failures are open known findings counts as discharged through its +excl twin
    for r in results:
        q = r.q
        if r.known and not any(v[0] == q['name'] for v in violations):
            twin = by_name.get(q['name'] + '+excl')
            if twin is None:
                inconcl.append((q['name'], 'known finding without exclusion twin'))
    # fixed known findings / stale open ones
    for k in known_all:
        if k['status'] == 'open' and k.get('engine', 'cbmc') == 'cbmc':
            rs = [x for n_, x in by_name.items() if k.get('query') and re.fullmatch(k['query'], n_)]
            r = rs[0] if rs else None
            if r is not None and all(x.verdict == 'DONE' and k['id'] not in x.known for x in rs):
                log('NOTE: open known finding %s did not occur in this run (query %s) -- entry may be stale' % (k['id'], k.get('query')))
    for er in extra_results:
        evals += er.get('evaluations', 1); obligations += 1
        solver_time += er.get('solver_s', 0.0)
        samples.append(er['sample'])
        if er['verdict'] == 'UNSAT':
            discharged += 1; nontrivial += 1 if er.get('nontrivial', True) else 0
            witness_runs += er.get('witness_runs', 0)
        elif er['verdict'] == 'SAT':
            if er.get('known'):
                known_lines.append('KNOWN-FINDING: property=%s %s' % (pid, er['known']))
            else:
                violations.append((er['sample']['query'], er.get('label', ''), er.get('replay', ''), 'reproduced'))
        else:
            inconcl.append((er['sample']['query'], er.get('detail', '')))
    for l in known_lines: log(l)
    for name, lab, path, nat in violations:
        log('counterexample: query=%s assertion="%s" native=%s' % (name, lab, nat))
        log('VIOLATION property=%s replay=%s' % (pid, path))
    for name, d in inconcl:
        log('INCONCLUSIVE property=%s query=%s %s' % (pid, name, d[:1200]))
    rc = 1 if violations else (3 if inconcl else 0)
    funcs = sorted({f for hb in hbs.values() for f in hb.functions_encoded if f})
    ev = {
        'property_id': pid, 'tier': args.tier, 'seed': seed, 'level': 'model_checking',
        'coverage': {
            'evaluations': evals, 'distinct_nontrivial': nontrivial,
            'rule': 'one evaluation = one solver query (entry point x shape x bound) over C generated from the clang IR of the real '
                    'code; counted non-trivial only when its end-of-harness witness assert(0) came back violated (assumptions '
                    'satisfiable, end reachable) and the verdict was delivered inside the budget',
            'samples': samples,
            'traces_validated_against_impl': traces_validated,
            'obligations': obligations, 'discharged': discharged, 'witness_runs': witness_runs,
            'checker_cmd': 'cbmc <h.gb> --function <entry> ' + ' '.join(CBMC_BASE) + ' --unwind N --sat-solver cadical',
            'trusted_base': ['clang++-14 front end and opt-14 -O1', 'tools/ir2c.py (IR->C)', 'models/*.c listed under stubs',
                             'cbmc 6.11.0 + cadical/minisat', 'g++ 12 native replay build'] + list(getattr(spec, 'TRUSTED', [])),
            'functions_encoded': funcs[:400], 'functions_encoded_count': len(funcs),
            'bounds': getattr(spec, 'BOUNDS', []), 'outside_claim': getattr(spec, 'OUTSIDE', []),
            'stubs': sorted({m for hb in hbs.values() for m in [os.path.basename(x) for x in hb.model_files()]}),
            'solver_time_s': round(solver_time, 2),
            'known_findings_applied': sorted({k for r in results for k in r.known}),
            'ub_unconfirmed': ub_unconf, 'exhaustive': False,
            'inconclusive': [{'query': n, 'detail': d[:400]} for n, d in inconcl],
        },
        'assumptions': list(getattr(spec, 'ASSUMPTIONS', [])),
        'wall_s': round(wall, 2), 'violations': len(violations),
    }
    if not args.no_evidence and not args.only:
        os.makedirs(os.path.join(VERIF, 'evidence'), exist_ok=True)
        json.dump(ev, open(os.path.join(VERIF, 'evidence', pid + '.json'), 'w'), indent=1)
    log('%s tier=%s queries=%d discharged=%d/%d violations=%d inconclusive=%d wall=%.1fs solver=%.1fs -> exit %d' %
        (pid, args.tier, evals, discharged, obligations, len(violations), len(inconcl), wall, solver_time, rc))
    if args.only or os.environ.get('VERIF_VERBOSE'):
        for s in samples:
            log('  %-40s %-12s %6.1fs vars=%s %s' % (s['query'], s['verdict'], s['wall_s'] or 0, s.get('sat_vars'), s.get('detail', '')[:300]))
    return rc

if __name__ == '__main__':
    sys.exit(main())
