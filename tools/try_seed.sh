#!/bin/sh
# usage: tools/try_seed.sh <seed-id> <property> [--only Q ...]   -- applies seeded/<id>/patch.diff to /repo, runs the quick
# tier of the property (no evidence written), undoes the change. Development aid; never leaves /repo modified.
S=$1; P=$2; shift 2
cd /verif
git -C /repo status --porcelain --untracked-files=no | grep -q . && { echo "/repo not clean"; exit 2; }
git -C /repo apply /verif/seeded/$S/patch.diff || exit 2
./check $P --tier quick --no-evidence "$@" > /var/tmp/w/seed_$S.log 2>&1; rc=$?
git -C /repo checkout -- .
echo "$S -> exit $rc ; $(grep -c '^VIOLATION' /var/tmp/w/seed_$S.log) VIOLATION lines ; $(grep '^counterexample' /var/tmp/w/seed_$S.log | head -2 | cut -c1-160 | tr '\n' '|')"
exit $rc
