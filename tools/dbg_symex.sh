#!/bin/sh
# usage: dbg_symex.sh <gb> <entry> <loop-unwind> [seconds]  -- histogram of symex unwinding events (development aid)
GB=$1; E=$2; U=$3; T=${4:-30}
US=$(cbmc $GB --show-loops 2>/dev/null | grep "^Loop" | sed 's/:$//' | awk -v u=$U '{print $2":"u}' | tr '\n' ',')
timeout $T cbmc $GB --function $E --unwind 2 --unwindset "${US%,}" --unwinding-assertions --drop-unused-functions --no-malloc-may-fail --verbosity 9 2>&1 > /tmp/dbg_symex.out
grep -i "unwinding\|Runtime\|variables" /tmp/dbg_symex.out | awk '{print $1,$2,$3,$4}' | sort | uniq -c | sort -rn | head -${5:-12}
