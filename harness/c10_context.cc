// C10: Context is an immutable value (SetValue returns a new context that shadows; every earlier context keeps answering as
// before) and the runtime context is a stack (Attach / Detach incl. out-of-order detach and foreign tokens).
#include "verif.h"
#include "opentelemetry/context/context.h"
#include "opentelemetry/context/runtime_context.h"
using namespace opentelemetry;
#ifndef NSTEPS
#define NSTEPS 3
#endif
// keys over a tiny concrete alphabet (if-then-else of constants: sizes stay concrete); "a" is a prefix of "ab"
struct Key { const char *p; size_t n; };
static Key pick_key() { uint8_t s = nondet_u8() % 3; Key k; k.p = s == 0 ? "a" : (s == 1 ? "b" : "ab"); k.n = s == 2 ? 2 : 1; return k; }
static int key_id(Key k) { return k.n == 2 ? 2 : (k.p[0] == 'a' ? 0 : 1); }
static bool get_i64(const context::Context &c, Key k, int64_t &out) {
  context::ContextValue v = c.GetValue(nostd::string_view(k.p, k.n));
  if (nostd::holds_alternative<int64_t>(v)) { out = nostd::get<int64_t>(v); return true; }
  return false;
}
// model: context i = (parent, key id, value); lookup walks the parents
struct M { int parent; int key; int64_t val; };
static bool model_get(const M *m, int ctx, int key, int64_t &out) { for (int i = ctx; i > 0; i = m[i].parent) if (m[i].key == key) { out = m[i].val; return true; } return false; }
ENTRY h_context_values() {
  context::Context c0;                               // context 0: empty
  M m[4]; m[0].parent = 0; m[0].key = -1; m[0].val = 0;
  // three derived contexts, each from a symbolically chosen EARLIER context
  uint8_t s1 = 0;                 Key k1 = pick_key(); int64_t v1 = (int64_t)nondet_u64();
  context::Context c1 = c0.SetValue(nostd::string_view(k1.p, k1.n), v1); m[1].parent = 0; m[1].key = key_id(k1); m[1].val = v1;
  uint8_t s2 = nondet_u8() % 2;   Key k2 = pick_key(); int64_t v2 = (int64_t)nondet_u64();
  context::Context c2 = (s2 == 0 ? c0 : c1).SetValue(nostd::string_view(k2.p, k2.n), v2); m[2].parent = s2; m[2].key = key_id(k2); m[2].val = v2;
  uint8_t s3 = nondet_u8() % 3;   Key k3 = pick_key(); int64_t v3 = (int64_t)nondet_u64();
  context::Context c3 = (s3 == 0 ? c0 : (s3 == 1 ? c1 : c2)).SetValue(nostd::string_view(k3.p, k3.n), v3); m[3].parent = s3; m[3].key = key_id(k3); m[3].val = v3;
  (void)s1;
  // every context answers every key exactly as the model says - in particular the older ones are unchanged
  Key q = pick_key(); int qi = key_id(q);
  int64_t got = 0, want = 0; bool g, w;
  g = get_i64(c0, q, got); w = model_get(m, 0, qi, want); VASSERT(g == w && (!g || got == want), "empty context keeps answering as before");
  g = get_i64(c1, q, got); w = model_get(m, 1, qi, want); VASSERT(g == w && (!g || got == want), "first derived context keeps answering as before (later SetValue calls do not change it)");
  g = get_i64(c2, q, got); w = model_get(m, 2, qi, want); VASSERT(g == w && (!g || got == want), "second derived context: newest binding shadows, inherited bindings visible");
  g = get_i64(c3, q, got); w = model_get(m, 3, qi, want); VASSERT(g == w && (!g || got == want), "third derived context: newest binding shadows, inherited bindings visible");
  VASSERT(c3.HasKey(nostd::string_view(k3.p, k3.n)) && !(c3 == c0), "HasKey sees the new key; a derived context is a different value");
}
// ---- runtime context stack
ENTRY h_attach_detach() {
  context::Context e;                                             // three distinct non-empty contexts
  context::Context ctx[3] = {e.SetValue("k", (int64_t)1), e.SetValue("k", (int64_t)2), e.SetValue("k", (int64_t)3)};
  nostd::unique_ptr<context::Token> tok[4]; int tok_ctx[4]; int ntok = 0;
  int stack[4]; int depth = 0;                                    // model stack of context indices
  for (int step = 0; step < NSTEPS; step++) {
    bool attach = nondet_bool();
    if (attach) {
      if (ntok < 4) {
        uint8_t ci = nondet_u8() % 3;
        tok[ntok] = context::RuntimeContext::Attach(ci == 0 ? ctx[0] : (ci == 1 ? ctx[1] : ctx[2]));
        tok_ctx[ntok] = ci; ntok++; stack[depth++] = ci;
      }
    } else if (ntok > 0) {
      uint8_t ti = nondet_u8() % 4; VASSUME(ti < ntok);
      context::Token *t = ti == 0 ? tok[0].get() : (ti == 1 ? tok[1].get() : (ti == 2 ? tok[2].get() : tok[3].get()));
      bool r = context::RuntimeContext::Detach(*t);
      // model: most recent occurrence of the token's context; pop it and everything above; absent -> false, nothing changes
      int pos = -1; for (int i = 0; i < depth; i++) if (stack[i] == tok_ctx[ti]) pos = i;
      VASSERT(r == (pos >= 0), "Detach reports whether the token's context was on the stack");
      if (pos >= 0) depth = pos;
    }
    context::Context cur = context::RuntimeContext::GetCurrent();
    int64_t v = 0; bool has = get_i64(cur, Key{"k", 1}, v);
    if (depth == 0) VASSERT(!has, "empty stack: the current context is the empty context");
    else VASSERT(has && v == stack[depth - 1] + 1, "the current context is the most recently attached one that has not been detached");
  }
  for (int i = 0; i < 4; i++) tok[i].release();                   // tokens are not destroyed inside the query (their destructor detaches)
}

// ---- scripted deep stack: attach a, b, a, c (a context attached twice, depth 4 crosses both growth steps 0->2->6), then detach
// two symbolically chosen tokens (out of order / repeated / already unwound) and compare with the stack model after each step
ENTRY h_attach_script() {
  context::Context e;
  context::Context ctx[3] = {e.SetValue("k", (int64_t)1), e.SetValue("k", (int64_t)2), e.SetValue("k", (int64_t)3)};
  static const int script[4] = {0, 1, 0, 2};
  nostd::unique_ptr<context::Token> tok[4]; int stack[4]; int depth = 0;
  for (int i = 0; i < 4; i++) { tok[i] = context::RuntimeContext::Attach(ctx[script[i]]); stack[depth++] = script[i]; }
  {
    context::Context cur = context::RuntimeContext::GetCurrent(); int64_t v = 0; bool has = get_i64(cur, Key{"k", 1}, v);
    VASSERT(has && v == 3, "after four attaches the last attached context is current");
  }
#ifndef DSTEPS
#define DSTEPS 1
#endif
  for (int step = 0; step < DSTEPS; step++) {
    uint8_t ti = nondet_u8(); VASSUME(ti < 4);
    context::Token *t = ti == 0 ? tok[0].get() : (ti == 1 ? tok[1].get() : (ti == 2 ? tok[2].get() : tok[3].get()));
    bool r = context::RuntimeContext::Detach(*t);
    int pos = -1; for (int i = 0; i < depth; i++) if (stack[i] == script[ti]) pos = i;     // most recent occurrence of the token's context
    VASSERT(r == (pos >= 0), "deep stack: Detach reports whether the token's context was on the stack");
    if (pos >= 0) depth = pos;
    context::Context cur = context::RuntimeContext::GetCurrent(); int64_t v = 0; bool has = get_i64(cur, Key{"k", 1}, v);
    if (depth == 0) VASSERT(!has, "deep stack: everything unwound leaves the empty context current");
    else VASSERT(has && v == stack[depth - 1] + 1, "deep stack: detaching restores the context that was current before the matching (most recent) Attach");
  }
  for (int i = 0; i < 4; i++) tok[i].release();
}
