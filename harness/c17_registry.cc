// C17: ObservableRegistry / sdk ObservableInstrument: every registered callback is invoked exactly once per Observe,
// removed callbacks and callbacks of destroyed instruments never again; what the callbacks' instrument storage is handed.
#include "verif.h"
#include "sdk/src/metrics/state/observable_registry.cc"
#include "sdk/src/metrics/async_instruments.cc"
#include "sdk/src/metrics/state/filtered_ordered_attribute_map.cc"
using namespace opentelemetry;
namespace m = opentelemetry::sdk::metrics;
#ifndef NOPS
#define NOPS 3
#endif
static int g_rec_long[2], g_rec_double[2]; static uint64_t g_ts_seen[2]; static bool g_ts_ok = true; static uint64_t g_ts;
struct Store : m::AsyncWritableMetricStorage {
  int idx; explicit Store(int i) : idx(i) {}
  void RecordLong(const std::unordered_map<m::MetricAttributes, int64_t, m::AttributeHashGenerator> &, common::SystemTimestamp t) noexcept override {
    g_rec_long[idx]++; if ((uint64_t)t.time_since_epoch().count() != g_ts) g_ts_ok = false; }
  void RecordDouble(const std::unordered_map<m::MetricAttributes, double, m::AttributeHashGenerator> &, common::SystemTimestamp t) noexcept override {
    g_rec_double[idx]++; if ((uint64_t)t.time_since_epoch().count() != g_ts) g_ts_ok = false; }
};
// invocation counts per (callback k, state s)
static int g_calls[2][2]; static char g_state[2];
static void cb0(opentelemetry::metrics::ObserverResult, void *st) { g_calls[0][(char *)st - g_state]++; }
static void cb1(opentelemetry::metrics::ObserverResult, void *st) { g_calls[1][(char *)st - g_state]++; }
static opentelemetry::metrics::ObservableCallbackPtr cbs[2] = {cb0, cb1};

ENTRY h_registry() {
  std::shared_ptr<m::ObservableRegistry> reg(new m::ObservableRegistry);
  bool dbl0 = nondet_bool(); bool dbl1 = nondet_bool();
  m::InstrumentDescriptor d0{"a", "", "", m::InstrumentType::kObservableGauge, dbl0 ? m::InstrumentValueType::kDouble : m::InstrumentValueType::kLong};
  m::InstrumentDescriptor d1{"b", "", "", m::InstrumentType::kObservableCounter, dbl1 ? m::InstrumentValueType::kDouble : m::InstrumentValueType::kLong};
  m::ObservableInstrument *ins[2];
  ins[0] = new m::ObservableInstrument(d0, std::unique_ptr<m::AsyncWritableMetricStorage>(new Store(0)), reg);
  ins[1] = new m::ObservableInstrument(d1, std::unique_ptr<m::AsyncWritableMetricStorage>(new Store(1)), reg);
  // model: registrations[instrument][callback][state] = number of live registrations
  int model[2][2][2] = {{{0, 0}, {0, 0}}, {{0, 0}, {0, 0}}};
  bool alive[2] = {true, true};
  for (int op = 0; op < NOPS; op++) {
    uint8_t kind = nondet_u8(); uint8_t i = nondet_u8(); uint8_t k = nondet_u8(); uint8_t s = nondet_u8();
    VASSUME(kind < 3 && i < 2 && k < 2 && s < 2);
    if (!alive[i]) continue;
    if (kind == 0) { VASSUME(model[i][k][s] == 0); ins[i]->AddCallback(cbs[k], &g_state[s]); model[i][k][s]++; }   // double registration of one triple: outside
    else if (kind == 1) { ins[i]->RemoveCallback(cbs[k], &g_state[s]); model[i][k][s] = 0; }
    else { delete ins[i]; alive[i] = false; for (int a = 0; a < 2; a++) for (int b = 0; b < 2; b++) model[i][a][b] = 0; }
  }
  g_ts = nondet_u64(); VASSUME(g_ts < (1ULL << 62));
  reg->Observe(common::SystemTimestamp(std::chrono::nanoseconds((int64_t)g_ts)));
  bool ok = true; int per_ins[2] = {0, 0};
  for (int k = 0; k < 2; k++) for (int s = 0; s < 2; s++) { int want = 0; for (int i = 0; i < 2; i++) { want += model[i][k][s]; per_ins[i] += model[i][k][s]; } ok = ok && g_calls[k][s] == want; }
  VASSERT(ok, "every registered callback is invoked exactly once per collection with its own state; removed callbacks and callbacks of destroyed instruments are not invoked");
  VASSERT(g_rec_long[0] + g_rec_double[0] == per_ins[0] && g_rec_long[1] + g_rec_double[1] == per_ins[1], "each invocation hands its observations to the storage of the instrument it was registered on");
  VASSERT((dbl0 ? g_rec_long[0] : g_rec_double[0]) == 0 && (dbl1 ? g_rec_long[1] : g_rec_double[1]) == 0, "observations are recorded with the instrument's value type");
  VASSERT(g_ts_ok, "observations carry the collection instant");
  // second collection: same set again (a callback is not consumed by being invoked)
  reg->Observe(common::SystemTimestamp(std::chrono::nanoseconds((int64_t)g_ts)));
  ok = true;
  for (int k = 0; k < 2; k++) for (int s = 0; s < 2; s++) { int want = 0; for (int i = 0; i < 2; i++) want += model[i][k][s]; ok = ok && g_calls[k][s] == 2 * want; }
  VASSERT(ok, "a second collection invokes exactly the same callbacks once more");
}
