// C12: TraceIdRatioBasedSampler (file-static CalculateThreshold reached by including the real .cc),
// ParentBasedSampler, AlwaysOn/AlwaysOff.
#include "verif.h"
#include <cmath>
#include "sdk/src/trace/samplers/trace_id_ratio.cc"
#include "sdk/src/trace/samplers/parent.cc"
#include "opentelemetry/sdk/trace/samplers/always_on.h"
#include "opentelemetry/sdk/trace/samplers/always_off.h"
#include "opentelemetry/common/kv_properties.h"
#include "opentelemetry/trace/span_context_kv_iterable_view.h"
using namespace opentelemetry;
namespace sdkt = opentelemetry::sdk::trace;

static double any_non_nan() { double d = nondet_double(); VASSUME(d == d); return d; }

// Q1a/b: end points and absence of UB (fp->int conversion range is asserted by the translator)
ENTRY h_threshold_endpoints() {
  double r = any_non_nan();
  uint64_t t = CalculateThreshold(r);
  if (r <= 0.0) VASSERT(t == 0, "ratio <= 0 gives threshold 0");
  if (r >= 1.0) VASSERT(t == UINT64_MAX, "ratio >= 1 gives threshold UINT64_MAX");
}
// Q1c: monotone in the ratio
ENTRY h_threshold_monotone() {
  double r1 = any_non_nan(), r2 = any_non_nan();
  VASSUME(r1 <= r2);
  uint64_t t1 = CalculateThreshold(r1), t2 = CalculateThreshold(r2);
  VASSERT(t1 <= t2, "CalculateThreshold is monotone: r1 <= r2 implies T(r1) <= T(r2)");
}

// Q1d: the documented split formula (high and low 32 bits computed separately and ADDED), with the product taken from the
// same multiplication (under --fp-hooks both multiplications are the same abstract value for the same ratio)
ENTRY h_threshold_formula() {
  double r = any_non_nan();
  VASSUME(r > 0.0 && r < 1.0);
  uint64_t t = CalculateThreshold(r);
  const double product = UINT32_MAX * r;
  double hi = 0; double frac = modf(product, &hi);
  double lo = ldexp(frac, 32) + product;
  uint64_t want = (static_cast<uint64_t>(hi) << 32) + static_cast<uint64_t>(lo);
  VASSERT(t == want, "threshold = (hi << 32) + lo of UINT32_MAX * ratio (carry from the low part included)");
}
struct NoAttrs : common::KeyValueIterable {
  bool ForEachKeyValue(nostd::function_ref<bool(nostd::string_view, common::AttributeValue)>) const noexcept override { return true; }
  size_t size() const noexcept override { return 0; }
};
struct NoLinks : trace::SpanContextKeyValueIterable {
  bool ForEachKeyValue(nostd::function_ref<bool(trace::SpanContext, const common::KeyValueIterable &)>) const noexcept override { return true; }
  size_t size() const noexcept override { return 0; }
};

static trace::SpanContext any_context() {
  uint8_t tid[16], sid[8];
  for (int i = 0; i < 16; i++) tid[i] = nondet_u8();
  for (int i = 0; i < 8; i++) sid[i] = nondet_u8();
  uint8_t fl = nondet_u8(); bool remote = nondet_bool();   // sequenced: argument evaluation order differs between clang and g++
  return trace::SpanContext(trace::TraceId(tid), trace::SpanId(sid), trace::TraceFlags(fl), remote);
}

// Q2: decision of the ratio sampler = threshold != 0 && T(id) <= threshold, nothing else matters
ENTRY h_ratio_decision() {
  double ratio = any_non_nan();
  sdkt::TraceIdRatioBasedSampler s(ratio);
  VASSERT(s.threshold_ == CalculateThreshold(ratio), "sampler threshold is CalculateThreshold(ratio)");
  uint8_t tid[16]; for (int i = 0; i < 16; i++) tid[i] = nondet_u8();
  trace::TraceId id(tid);
  trace::SpanContext parent = any_context();
  NoAttrs a; NoLinks l;
  sdkt::SamplingResult res = s.ShouldSample(parent, id, "n", trace::SpanKind(nondet_u8() % 5), a, l);
  uint64_t first8 = 0; for (int i = 7; i >= 0; i--) first8 = (first8 << 8) | tid[i];
  uint64_t tt = CalculateThreshold(double(first8) / double(UINT64_MAX));
  bool want = s.threshold_ != 0 && tt <= s.threshold_;
  VASSERT((res.decision == sdkt::Decision::RECORD_AND_SAMPLE) == want, "sampled iff threshold != 0 and T(trace id) <= threshold");
  VASSERT(res.decision == sdkt::Decision::RECORD_AND_SAMPLE || res.decision == sdkt::Decision::DROP, "ratio sampler answers SAMPLE or DROP only");
  if (ratio <= 0.0) VASSERT(res.decision == sdkt::Decision::DROP, "ratio <= 0 samples nothing");
  if (ratio >= 1.0) VASSERT(res.decision == sdkt::Decision::RECORD_AND_SAMPLE, "ratio >= 1 samples everything");
}

// Q3: parent-based sampler
struct MockDelegate : sdkt::Sampler {
  int calls = 0; uint8_t dec = 0;
  sdkt::SamplingResult ShouldSample(const trace::SpanContext &, trace::TraceId, nostd::string_view, trace::SpanKind,
                                    const common::KeyValueIterable &, const trace::SpanContextKeyValueIterable &) noexcept override {
    calls++;
    return {sdkt::Decision(dec), nullptr, nostd::shared_ptr<trace::TraceState>(nullptr)};
  }
  nostd::string_view GetDescription() const noexcept override { return "m"; }
};
ENTRY h_parent_based() {
  auto d = std::make_shared<MockDelegate>();
  d->dec = nondet_u8() % 3;
  sdkt::ParentBasedSampler s(d);
  trace::SpanContext parent = any_context();
  uint8_t tid[16]; for (int i = 0; i < 16; i++) tid[i] = nondet_u8();
  NoAttrs a; NoLinks l;
  sdkt::SamplingResult res = s.ShouldSample(parent, trace::TraceId(tid), "n", trace::SpanKind::kInternal, a, l);
  if (parent.IsValid()) {
    VASSERT(d->calls == 0, "valid parent: root sampler is not consulted");
    VASSERT((res.decision == sdkt::Decision::RECORD_AND_SAMPLE) == parent.IsSampled(), "valid parent: decision sampled iff parent sampled");
    VASSERT(res.decision == sdkt::Decision::RECORD_AND_SAMPLE || res.decision == sdkt::Decision::DROP, "valid parent: SAMPLE or DROP");
    VASSERT(res.trace_state.get() == parent.trace_state().get(), "valid parent: trace state is the parent's");
  } else {
    VASSERT(d->calls == 1, "no valid parent: root sampler consulted exactly once");
    VASSERT(res.decision == sdkt::Decision(d->dec), "no valid parent: root sampler's decision is returned");
  }
}
ENTRY h_always() {
  trace::SpanContext parent = any_context();
  uint8_t tid[16]; for (int i = 0; i < 16; i++) tid[i] = nondet_u8();
  NoAttrs a; NoLinks l;
  sdkt::AlwaysOnSampler on; sdkt::AlwaysOffSampler off;
  auto r1 = on.ShouldSample(parent, trace::TraceId(tid), "n", trace::SpanKind::kInternal, a, l);
  auto r2 = off.ShouldSample(parent, trace::TraceId(tid), "n", trace::SpanKind::kInternal, a, l);
  VASSERT(r1.decision == sdkt::Decision::RECORD_AND_SAMPLE, "always-on samples");
  VASSERT(r2.decision == sdkt::Decision::DROP, "always-off drops");
}
