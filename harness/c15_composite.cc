// C15: CompositePropagator applies every configured propagator in order (inject) and threads the context through all of them
// (extract); BaggagePropagator::Extract leaves the caller's context untouched when the header holds nothing valid.
#include "verif.h"
#include "opentelemetry/context/propagation/composite_propagator.h"
#include "opentelemetry/baggage/propagation/baggage_propagator.h"
using namespace opentelemetry;
namespace prop = opentelemetry::context::propagation;
#ifndef NPROP
#define NPROP 2
#endif
static int g_inject_seq[4], g_ninject, g_extract_seq[4], g_nextract; static bool g_same_carrier = true, g_same_ctx = true, g_thread_ok = true;
static prop::TextMapCarrier *g_carrier; static const context::Context *g_inject_ctx;
static const char *KEYS[3] = {"k0", "k1", "k2"};
struct Carrier : prop::TextMapCarrier {
  const char *hdr;
  nostd::string_view Get(nostd::string_view) const noexcept override { return hdr ? nostd::string_view(hdr) : nostd::string_view(); }
  void Set(nostd::string_view, nostd::string_view) noexcept override {}
};
struct P : prop::TextMapPropagator {
  int idx; explicit P(int i) : idx(i) {}
  void Inject(prop::TextMapCarrier &c, const context::Context &ctx) noexcept override {
    if (g_ninject < 4) g_inject_seq[g_ninject] = idx; g_ninject++;
    if (&c != g_carrier) g_same_carrier = false;
    if (!(ctx == *g_inject_ctx)) g_same_ctx = false;
  }
  context::Context Extract(const prop::TextMapCarrier &, context::Context &ctx) noexcept override {
    if (g_nextract < 4) g_extract_seq[g_nextract] = idx; g_nextract++;
    for (int j = 0; j < NPROP; j++) if (ctx.HasKey(KEYS[j]) != (j < idx)) g_thread_ok = false;   // sees exactly what the earlier propagators added
    if (!ctx.HasKey("base")) g_thread_ok = false;
    return ctx.SetValue(KEYS[idx], (int64_t)idx);
  }
  bool Fields(nostd::function_ref<bool(nostd::string_view)>) const noexcept override { return true; }
};
ENTRY h_composite() {
  std::vector<std::unique_ptr<prop::TextMapPropagator>> ps;
  for (int i = 0; i < NPROP; i++) ps.push_back(std::unique_ptr<prop::TextMapPropagator>(new P(i)));
  auto *cp = new prop::CompositePropagator(std::move(ps));
  Carrier car; car.hdr = nullptr; g_carrier = &car;
  context::Context base = context::Context().SetValue("base", (int64_t)7);
  g_inject_ctx = &base;
  cp->Inject(car, base);
  bool order = g_ninject == NPROP; for (int i = 0; i < NPROP; i++) order = order && g_inject_seq[i] == i;
  VASSERT(order && g_same_carrier && g_same_ctx, "composite inject: every configured propagator is applied exactly once, in order, to the caller's carrier and context");
  context::Context out = cp->Extract(car, base);
  order = g_nextract == NPROP; for (int i = 0; i < NPROP; i++) order = order && g_extract_seq[i] == i;
  VASSERT(order && g_thread_ok, "composite extract: each propagator receives the context produced by the previous one");
  bool all = out.HasKey("base"); for (int i = 0; i < NPROP; i++) all = all && out.HasKey(KEYS[i]);
  VASSERT(all, "composite extract: the result carries what every propagator extracted");
  VASSERT(!base.HasKey(KEYS[0]), "composite extract: the caller's context is not modified");
  std::vector<std::unique_ptr<prop::TextMapPropagator>> none;
  auto *cp0 = new prop::CompositePropagator(std::move(none));
  context::Context same = cp0->Extract(car, base);
  VASSERT(same == base, "empty composite: extract returns the caller's context");
}
// BaggagePropagator::Extract on a header with no valid member: the context the caller passed comes back unchanged
#ifndef JUNK
#define JUNK 0
#endif
ENTRY h_baggage_extract_nothing_valid() {
  static const char *junk[] = {"", "x", "=v", ","};
  Carrier car; car.hdr = junk[JUNK];
  context::Context base = context::Context().SetValue(baggage::kBaggageHeader, (int64_t)7);   // something already stored under the baggage key
  baggage::propagation::BaggagePropagator bp;
  context::Context out = bp.Extract(car, base);
  VASSERT(out == base, "baggage extract: a header with no valid member leaves the context untouched");
  int64_t v = 0; auto cv = out.GetValue(baggage::kBaggageHeader);
  VASSERT(nostd::holds_alternative<int64_t>(cv) && nostd::get<int64_t>(cv) == 7, "baggage extract: what the context held under the baggage key is still there");
}
