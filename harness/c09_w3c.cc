// C09: W3C trace-context inject / extract on the real HttpTraceContext (api headers).
#include "verif.h"
#include "opentelemetry/trace/propagation/http_trace_context.h"
using namespace opentelemetry;
namespace prop = opentelemetry::trace::propagation;

#ifndef LEN
#define LEN 55
#endif

// carrier with one traceparent buffer of exactly LEN bytes (heap object of exact size so that any
// over-read is an out-of-bounds access) and an optional tracestate
struct Carrier : context::propagation::TextMapCarrier {
  const char *tp = nullptr; size_t tp_len = 0;
  const char *ts = nullptr; size_t ts_len = 0;
  char set_tp[64]; size_t set_tp_len = 0; int n_set_tp = 0;
  char set_ts[64]; size_t set_ts_len = 0; int n_set_ts = 0; int n_set_other = 0;
  nostd::string_view Get(nostd::string_view key) const noexcept override {
    if (key == prop::kTraceParent) return nostd::string_view(tp, tp_len);
    if (key == prop::kTraceState) return nostd::string_view(ts, ts_len);
    return "";
  }
  void Set(nostd::string_view key, nostd::string_view value) noexcept override {
    if (key == prop::kTraceParent) { n_set_tp++; set_tp_len = value.size(); for (size_t i = 0; i < value.size() && i < 64; i++) set_tp[i] = value[i]; }
    else if (key == prop::kTraceState) { n_set_ts++; set_ts_len = value.size(); for (size_t i = 0; i < value.size() && i < 64; i++) set_ts[i] = value[i]; }
    else n_set_other++;
  }
};

static bool is_ws(uint8_t c) { return c == ' ' || (c >= 9 && c <= 13); }
static int hexval(uint8_t c) {
  if (c >= '0' && c <= '9') return c - '0';
  if (c >= 'a' && c <= 'f') return c - 'a' + 10;
  if (c >= 'A' && c <= 'F') return c - 'A' + 10;
  return -1;
}
// independent W3C level-1 predicate over the raw header bytes (after whitespace trimming)
struct W3C { bool ok; uint8_t tid[16]; uint8_t sid[8]; uint8_t flags; };
static W3C w3c_parse(const uint8_t *s, size_t n) {
  W3C r; r.ok = false; r.flags = 0;
  for (int i = 0; i < 16; i++) r.tid[i] = 0;
  for (int i = 0; i < 8; i++) r.sid[i] = 0;
  size_t b = 0, e = n;
  while (b < e && is_ws(s[b])) b++;
  while (e > b && is_ws(s[e - 1])) e--;
  size_t len = e - b; const uint8_t *p = s + b;
  if (len < 55) return r;
  for (size_t i = 0; i < 55; i++) {
    bool dash = (i == 2 || i == 35 || i == 52);
    if (dash) { if (p[i] != '-') return r; }
    else if (hexval(p[i]) < 0) return r;
  }
  int version = hexval(p[0]) * 16 + hexval(p[1]);
  if (version == 0xff) return r;
  if (version == 0) { if (len != 55) return r; }
  else { if (len > 55 && p[55] != '-') return r; }
  bool tz = true, sz = true;
  for (int i = 0; i < 16; i++) { r.tid[i] = uint8_t(hexval(p[3 + 2 * i]) * 16 + hexval(p[4 + 2 * i])); if (r.tid[i]) tz = false; }
  for (int i = 0; i < 8; i++) { r.sid[i] = uint8_t(hexval(p[36 + 2 * i]) * 16 + hexval(p[37 + 2 * i])); if (r.sid[i]) sz = false; }
  r.flags = uint8_t(hexval(p[53]) * 16 + hexval(p[54]));
  if (tz || sz) return r;
  r.ok = true;
  return r;
}

// ---- Q2: extraction of every byte string of length LEN
ENTRY h_extract() {
  uint8_t *buf = (uint8_t *)__builtin_malloc(LEN ? LEN : 1);
  for (size_t i = 0; i < LEN; i++) buf[i] = nondet_u8();
  Carrier c; c.tp = (const char *)buf; c.tp_len = LEN; c.ts = ""; c.ts_len = 0;
  trace::SpanContext sc = prop::HttpTraceContext::ExtractImpl(c);
  W3C w = w3c_parse(buf, LEN);
  VASSERT(sc.IsValid() == w.ok, "extract yields a valid context exactly for well-formed W3C traceparent");
  if (sc.IsValid()) {
    VASSERT(sc.IsRemote(), "extracted context is remote");
    bool same = true;
    for (int i = 0; i < 16; i++) same = same && sc.trace_id().Id()[i] == w.tid[i];
    for (int i = 0; i < 8; i++) same = same && sc.span_id().Id()[i] == w.sid[i];
    VASSERT(same, "extracted ids equal the encoded hex digits");
    VASSERT(sc.trace_flags().flags() == w.flags, "extracted flags byte equals the encoded hex digits");
  } else {
    bool zero = true;
    for (int i = 0; i < 16; i++) zero = zero && sc.trace_id().Id()[i] == 0;
    for (int i = 0; i < 8; i++) zero = zero && sc.span_id().Id()[i] == 0;
    VASSERT(zero && !sc.IsRemote(), "rejected header gives the invalid (all-zero, non-remote) context");
  }
  __builtin_free(buf);
}

// ---- Q1: injection for every id / flags
ENTRY h_inject() {
  uint8_t tid[16], sid[8];
  for (int i = 0; i < 16; i++) tid[i] = nondet_u8();
  for (int i = 0; i < 8; i++) sid[i] = nondet_u8();
  uint8_t fl = nondet_u8();
  trace::SpanContext sc(trace::TraceId(tid), trace::SpanId(sid), trace::TraceFlags(fl), nondet_bool());
  VASSUME(sc.IsValid());
  Carrier c;
  prop::HttpTraceContext::InjectImpl(c, sc);
  VASSERT(c.n_set_tp == 1 && c.set_tp_len == 55, "inject writes one traceparent of exactly 55 characters");
  VASSERT(c.n_set_ts == 0 && c.n_set_other == 0, "empty trace state writes no tracestate header");
  const char *hex = "0123456789abcdef";
  bool ok = c.set_tp[0] == '0' && c.set_tp[1] == '0' && c.set_tp[2] == '-' && c.set_tp[35] == '-' && c.set_tp[52] == '-';
  for (int i = 0; i < 16; i++) ok = ok && c.set_tp[3 + 2 * i] == hex[tid[i] >> 4] && c.set_tp[4 + 2 * i] == hex[tid[i] & 15];
  for (int i = 0; i < 8; i++) ok = ok && c.set_tp[36 + 2 * i] == hex[sid[i] >> 4] && c.set_tp[37 + 2 * i] == hex[sid[i] & 15];
  ok = ok && c.set_tp[53] == hex[fl >> 4] && c.set_tp[54] == hex[fl & 15];
  VASSERT(ok, "traceparent is 00-<32 lowercase hex>-<16 lowercase hex>-<2 lowercase hex> of the ids and flags");
  // round trip through the real extractor
  Carrier c2; c2.tp = c.set_tp; c2.tp_len = c.set_tp_len; c2.ts = ""; c2.ts_len = 0;
  trace::SpanContext back = prop::HttpTraceContext::ExtractImpl(c2);
  VASSERT(back.IsValid() && back.IsRemote(), "injected header extracts to a valid remote context");
  VASSERT(back.trace_id() == sc.trace_id() && back.span_id() == sc.span_id() && back.trace_flags() == sc.trace_flags(),
          "inject then extract preserves trace id, span id and flags byte");
}
