// C07: Long/DoubleHistogramAggregation Aggregate / Merge / ToPoint vs an exact reference.
#include "verif.h"
#include <cmath>
#include "sdk/src/metrics/aggregation/histogram_aggregation.cc"
using namespace opentelemetry;
namespace m = opentelemetry::sdk::metrics;
#ifndef NB
#define NB 2
#endif
static double any_finite() { double d = nondet_double(); VASSUME(d == d && d - d == 0.0); return d; }
static void any_boundaries(m::HistogramAggregationConfig &cfg) {
  double prev = 0;
  for (int i = 0; i < NB; i++) { double b = any_finite(); if (i) VASSUME(prev < b); cfg.boundaries_.push_back(b); prev = b; }
  cfg.record_min_max_ = true;
}
// exact  b < v  for double b and integer v (no rounding of v). The conversion sits in a call: LLVM may hoist a bare float->int
// conversion above the range tests that guard it (poison when unused, not UB), and the translator reports an out-of-range conversion
// where it stands in the IR.
static __attribute__((noinline)) int64_t trunc_in_range(double x) { return (int64_t)x; }
static bool lt_double_int(double b, int64_t v) {
  if (b >= 9223372036854775808.0) return false;
  if (b < -9223372036854775808.0) return true;
  int64_t t = trunc_in_range(b);     // toward zero, exact
  int64_t fl = ((double)t > b) ? t - 1 : t;
  return fl < v;
}
static size_t ref_bucket_long(const m::HistogramAggregationConfig &cfg, int64_t v) { size_t k = 0; for (int i = 0; i < NB; i++) if (lt_double_int(cfg.boundaries_[i], v)) k++; return k; }
static size_t ref_bucket_double(const m::HistogramAggregationConfig &cfg, double v) { size_t k = 0; for (int i = 0; i < NB; i++) if (cfg.boundaries_[i] < v) k++; return k; }

ENTRY h_long_aggregate() {
  m::HistogramAggregationConfig cfg; any_boundaries(cfg);
  m::LongHistogramAggregation agg(&cfg);
  int64_t v1 = (int64_t)nondet_u64(), v2 = (int64_t)nondet_u64();
  VASSUME(v1 >= 0 && v2 >= 0 && v1 < (1LL << 62) && v2 < (1LL << 62));
#ifdef KF_C07_INT53
  KF_EXCLUDE(v1 > (1LL << 53) || v2 > (1LL << 53));   // known finding: int64 above 2^53 is compared after rounding to double
#endif
  m::PointAttributes attrs;
  agg.Aggregate(v1, attrs); agg.Aggregate(v2, attrs);
  auto p = nostd::get<m::HistogramPointData>(agg.ToPoint());
  VASSERT(p.count_ == 2 && p.counts_.size() == NB + 1 && p.boundaries_.size() == NB, "long: count and shape");
  uint64_t total = 0; bool ok = true;
  size_t k1 = ref_bucket_long(cfg, v1), k2 = ref_bucket_long(cfg, v2);
  for (size_t i = 0; i <= NB; i++) { uint64_t want = (k1 == i) + (k2 == i); ok = ok && p.counts_[i] == want; total += p.counts_[i]; }
  VASSERT(total == 2, "long: bucket counts add up to count");
  VASSERT(ok, "long: bucket i counts exactly the values with boundary[i-1] < v <= boundary[i]");
  VASSERT(nostd::get<int64_t>(p.sum_) == v1 + v2, "long: sum is the sum of the values");
  VASSERT(nostd::get<int64_t>(p.min_) == (v1 < v2 ? v1 : v2) && nostd::get<int64_t>(p.max_) == (v1 < v2 ? v2 : v1), "long: min and max are the smallest and largest value");
}
ENTRY h_double_aggregate() {
  m::HistogramAggregationConfig cfg; any_boundaries(cfg);
  m::DoubleHistogramAggregation agg(&cfg);
  double v1 = any_finite(), v2 = any_finite();
  VASSUME(v1 >= 0 && v2 >= 0);
  m::PointAttributes attrs;
  agg.Aggregate(v1, attrs);
  double s1 = nostd::get<double>(nostd::get<m::HistogramPointData>(agg.ToPoint()).sum_);   // step-wise: one adder per obligation
  agg.Aggregate(v2, attrs);
  auto p = nostd::get<m::HistogramPointData>(agg.ToPoint());
  VASSERT(p.count_ == 2 && p.counts_.size() == NB + 1, "double: count and shape");
  uint64_t total = 0; bool ok = true;
  size_t k1 = ref_bucket_double(cfg, v1), k2 = ref_bucket_double(cfg, v2);
  for (size_t i = 0; i <= NB; i++) { uint64_t want = (k1 == i) + (k2 == i); ok = ok && p.counts_[i] == want; total += p.counts_[i]; }
  VASSERT(total == 2, "double: bucket counts add up to count");
  VASSERT(ok, "double: bucket i counts exactly the values with boundary[i-1] < v <= boundary[i]");
  VASSERT(s1 == 0.0 + v1 && nostd::get<double>(p.sum_) == s1 + v2, "double: sum is the left-to-right floating sum of the values");
  VASSERT(nostd::get<double>(p.min_) == (v1 < v2 ? v1 : v2), "double: min is the smallest recorded value");
  VASSERT(nostd::get<double>(p.max_) == (v1 < v2 ? v2 : v1), "double: max is the largest recorded value");
}
template <class Agg, class T>
static inline __attribute__((always_inline)) void merge_check(T v1, T v2, const char *l_counts, const char *l_sum, const char *l_minmax) {
  m::HistogramAggregationConfig cfg; any_boundaries(cfg);
  Agg a(&cfg), b(&cfg), c(&cfg);
  m::PointAttributes attrs;
  a.Aggregate(v1, attrs); b.Aggregate(v2, attrs); c.Aggregate(v1, attrs); c.Aggregate(v2, attrs);
  std::unique_ptr<m::Aggregation> mg = a.Merge(b);
  auto pm = nostd::get<m::HistogramPointData>(mg->ToPoint());
  auto pc = nostd::get<m::HistogramPointData>(c.ToPoint());
  bool ok = pm.count_ == pc.count_ && pm.counts_.size() == pc.counts_.size() && pm.boundaries_.size() == pc.boundaries_.size();
  for (size_t i = 0; i <= NB; i++) ok = ok && pm.counts_[i] == pc.counts_[i];
  for (size_t i = 0; i < NB; i++) ok = ok && pm.boundaries_[i] == pc.boundaries_[i];
  __VERIFIER_assert(ok, l_counts);
  // integer sums are associative; floating sums are compared with fl(sumA + sumB), which is all the property can mean
  auto pa = nostd::get<m::HistogramPointData>(a.ToPoint()); auto pb = nostd::get<m::HistogramPointData>(b.ToPoint());
  if (std::is_same<T, int64_t>::value) __VERIFIER_assert(nostd::get<T>(pm.sum_) == nostd::get<T>(pc.sum_), l_sum);
  else __VERIFIER_assert(nostd::get<T>(pm.sum_) == nostd::get<T>(pa.sum_) + nostd::get<T>(pb.sum_), l_sum);
  __VERIFIER_assert(pm.record_min_max_ && nostd::get<T>(pm.min_) == nostd::get<T>(pc.min_) && nostd::get<T>(pm.max_) == nostd::get<T>(pc.max_), l_minmax);
}
ENTRY h_long_merge() {
  int64_t v1 = (int64_t)nondet_u64(), v2 = (int64_t)nondet_u64();
  VASSUME(v1 >= 0 && v2 >= 0 && v1 < (1LL << 62) && v2 < (1LL << 62));
  merge_check<m::LongHistogramAggregation, int64_t>(v1, v2, "long merge: counts, count and boundaries equal recording everything into one histogram",
      "long merge: sum equals the single-histogram sum", "long merge: min/max equal the single-histogram min/max");
}
ENTRY h_double_merge() {
  double v1 = any_finite(), v2 = any_finite(); VASSUME(v1 >= 0 && v2 >= 0);
  merge_check<m::DoubleHistogramAggregation, double>(v1, v2, "double merge: counts, count and boundaries equal recording everything into one histogram",
      "double merge: sum equals the single-histogram sum", "double merge: min/max equal the single-histogram min/max");
}
// default boundaries (no config): 15 fixed boundaries, one symbolic value
ENTRY h_default_boundaries() {
  m::DoubleHistogramAggregation agg(nullptr);
  double v = any_finite(); VASSUME(v >= 0);
  m::PointAttributes attrs; agg.Aggregate(v, attrs);
  auto p = nostd::get<m::HistogramPointData>(agg.ToPoint());
  static const double kB[15] = {0.0, 5.0, 10.0, 25.0, 50.0, 75.0, 100.0, 250.0, 500.0, 750.0, 1000.0, 2500.0, 5000.0, 7500.0, 10000.0};
  size_t k = 0; for (int i = 0; i < 15; i++) if (kB[i] < v) k++;
  bool ok = p.counts_.size() == 16 && p.boundaries_.size() == 15;
  for (size_t i = 0; i < 16 && ok; i++) ok = p.counts_[i] == (i == k ? 1u : 0u);
  VASSERT(ok, "default boundaries: the value lands in exactly the documented bucket");
}
