// C02 (periodic reader): real PeriodicExportingMetricReader::CollectAndExportOnce / OnForceFlush / OnShutDown with a mock
// producer and exporter. Started threads run their body synchronously at start (collect thread) or never (the periodic
// worker, whose cycle the harness runs itself). While the cycle is inside the exporter another thread may record a
// measurement and begin a ForceFlush (take a ticket), one concrete pattern per query.
#include "verif.h"
#include "sdk/src/metrics/export/periodic_exporting_metric_reader.cc"
#include "sdk/src/metrics/metric_reader.cc"
using namespace opentelemetry;
namespace m = opentelemetry::sdk::metrics;
#ifndef INTERFERE
#define INTERFERE 0      // 0 none; 1 a measurement is recorded and a ForceFlush ticket taken while the cycle is inside Export;
                         // 2 another thread may call Shutdown on the reader while the worker's cycle is inside Export
#endif
#ifndef TICKETS
#define TICKETS 0        // 0 no flush requested; 2 one ForceFlush is waiting when the cycle starts
#endif
static m::PeriodicExportingMetricReader *g_reader; static bool g_run_threads;
static int g_recorded, g_snapshot, g_exported_upto, g_exports, g_produce, g_exp_flush, g_exp_shutdown; static bool g_export_after_shutdown;
static int g_in_export; extern "C" { extern uint32_t verif_thread_id; }
static uint64_t g_ticket[2]; static int g_issued_at[2]; static int g_ntickets;
extern "C" void verif_thread_run(std::thread::_State *s) { if (g_run_threads) s->_M_run(); }
#ifndef WMODE
#define WMODE 1          // what the periodic worker does while a caller blocks: 1 = runs a collect/export cycle, 0 = nothing
#endif
static int g_worker_steps; static bool g_worker_may_run;   // set by the entries in which a caller blocks on the periodic worker (not by the collect thread's own join)
extern "C" void verif_worker_step(uint32_t why) {
  if (!g_reader) return;
  if (why == 2 && g_in_export && verif_thread_id == 1) __VERIFIER_assume(false);   // the joined worker is still inside Export: the joiner blocks (this branch of the schedule ends)
  // why 1: the caller is inside a condition wait; why 2: the caller joins the worker (which may still be finishing a cycle)
  if (WMODE == 1 && g_worker_may_run && g_worker_steps < 1) { g_worker_steps++; g_reader->CollectAndExportOnce(); }
}
extern "C" { extern uint64_t verif_clock_min_step; }
static void take_ticket() { uint64_t t = g_reader->force_flush_pending_sequence_.fetch_add(1) + 1; if (g_ntickets < 2) { g_ticket[g_ntickets] = t; g_issued_at[g_ntickets] = g_recorded; } g_ntickets++; }
struct Prod : m::MetricProducer {
  Result Produce() noexcept override { g_produce++; g_snapshot = g_recorded; return Result{m::ResourceMetrics{}, Status::kSuccess}; }
};
struct Exp : m::PushMetricExporter {
  sdk::common::ExportResult Export(const m::ResourceMetrics &) noexcept override {
    VASSERT(g_in_export == 0, "periodic reader: Export is not entered while a previous Export on the exporter is still running");
    g_in_export++;
    g_exports++; g_exported_upto = g_snapshot; if (g_exp_shutdown) g_export_after_shutdown = true;
    if (INTERFERE == 1 && g_exports == 1) { g_recorded++; take_ticket(); }
    if (INTERFERE == 2 && g_exports == 1 && nondet_bool()) {   // a second thread shuts the reader down now; joining the worker blocks until this cycle is over
      verif_thread_id = 1; g_reader->Shutdown(std::chrono::microseconds(1000)); verif_thread_id = 0;
    }
    g_in_export--;
    return nondet_bool() ? sdk::common::ExportResult::kSuccess : sdk::common::ExportResult::kFailure;
  }
  m::AggregationTemporality GetAggregationTemporality(m::InstrumentType) const noexcept override { return m::AggregationTemporality::kDelta; }
  bool ForceFlush(std::chrono::microseconds) noexcept override { g_exp_flush++; return nondet_bool(); }
  bool Shutdown(std::chrono::microseconds) noexcept override { g_exp_shutdown++; return nondet_bool(); }
};
static bool acks_ok() {
  uint64_t n = g_reader->force_flush_notified_sequence_.load(); bool ok = true;
  for (int i = 0; i < 2; i++) if (i < g_ntickets && g_ticket[i] <= n && g_exported_upto < g_issued_at[i]) ok = false;
  return ok;
}
static Prod g_prod;
static m::PeriodicExportingMetricReader *make_reader() {
  m::PeriodicExportingMetricReaderOptions o; o.export_interval_millis = std::chrono::milliseconds(1000); o.export_timeout_millis = std::chrono::milliseconds(500);
  g_run_threads = false;                                  // the periodic worker thread is not run; its cycle is called below
  auto *r = new m::PeriodicExportingMetricReader(std::unique_ptr<m::PushMetricExporter>(new Exp), o);
  r->SetMetricProducer(&g_prod);
  g_reader = r; g_run_threads = true;
  return r;
}
ENTRY h_collect_cycle() {
  auto *r = make_reader();
  g_recorded = 2;                                         // measurements recorded before the cycle
  if (TICKETS == 2) take_ticket();                        // a ForceFlush caller is waiting
  bool ok = r->CollectAndExportOnce();
  VASSERT(ok && g_produce == 1 && g_exports == 1, "periodic reader: one cycle collects once and exports once");
  VASSERT(acks_ok(), "periodic reader: a ForceFlush ticket is acknowledged only after everything recorded before it was handed to Export");
  if (TICKETS == 2) VASSERT(r->force_flush_notified_sequence_.load() >= g_ticket[0], "periodic reader: a waiting ForceFlush is acknowledged by the cycle");
  if (INTERFERE == 1) {
    r->CollectAndExportOnce();
    VASSERT(acks_ok() && r->force_flush_notified_sequence_.load() >= g_ticket[g_ntickets - 1] && g_exported_upto == g_recorded, "periodic reader: the next cycle exports the late measurement and then acknowledges the late ticket");
  }
}

// ForceFlush of the reader (MetricReader::ForceFlush -> OnForceFlush): the caller blocks, the worker may run a cycle meanwhile
ENTRY h_reader_force_flush() {
  auto *r = make_reader();
  g_recorded = 3; g_worker_may_run = true;
  if (WMODE == 0) verif_clock_min_step = 2000000000ULL;   // bounded progress: the steady clock advances >= 2 s per reading, the 1 s budget runs out
  bool res = r->ForceFlush(std::chrono::microseconds(1000000));
  if (res) {
    VASSERT(g_exports >= 1 && g_exported_upto == 3, "periodic reader ForceFlush true: everything recorded before the call was handed to Export");
    VASSERT(g_exp_flush >= 1, "periodic reader ForceFlush true: the exporter's ForceFlush was invoked");
  }
  VASSERT(WMODE == 1 || !res, "periodic reader ForceFlush cannot report success if no cycle ran");
}
// Shutdown of the reader: the worker is joined (it may finish one more cycle), then the exporter is shut down; nothing is exported afterwards
ENTRY h_reader_shutdown() {
  auto *r = make_reader();
  g_recorded = 1; g_worker_may_run = true;
  r->Shutdown(std::chrono::microseconds(1000));
  VASSERT(g_exp_shutdown == 1 && !g_export_after_shutdown, "periodic reader Shutdown: the exporter is shut down once, after the worker's last Export");
  int e = g_exports;
  bool ff = r->ForceFlush(std::chrono::microseconds(1000));
  VASSERT(g_exports == e && !g_export_after_shutdown, "periodic reader: no Export call after Shutdown has returned");
  (void)ff;
}
