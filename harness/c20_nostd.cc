// C20: nostd vocabulary types in lock-step with their std counterparts (differential harnesses).
#include "verif.h"
#include <memory>
#include <string>
#include <string_view>
#include <variant>
#include "opentelemetry/nostd/function_ref.h"
#include "opentelemetry/nostd/shared_ptr.h"
#include "opentelemetry/nostd/span.h"
#include "opentelemetry/nostd/string_view.h"
#include "opentelemetry/nostd/unique_ptr.h"
#include "opentelemetry/nostd/variant.h"
using namespace opentelemetry;
#ifndef LEN
#define LEN 3
#endif
extern "C" unsigned verif_abort_expected;
static int sgn(int x) { return x < 0 ? -1 : (x > 0 ? 1 : 0); }
// symbolic byte string of symbolic length <= LEN in an exactly sized heap object (NULs allowed)
static char *any_bytes(size_t &n) {
  n = nondet_u8(); VASSUME(n <= LEN);
  char *s = (char *)__builtin_malloc(n ? n : 1);
  for (size_t i = 0; i < LEN; i++) if (i < n) s[i] = (char)nondet_u8();
  return s;
}
ENTRY h_sv_compare() {
  size_t n1, n2; char *p1 = any_bytes(n1); char *p2 = any_bytes(n2);
  nostd::string_view a(p1, n1), b(p2, n2); std::string_view sa(p1, n1), sb(p2, n2);
  VASSERT(sgn(a.compare(b)) == sgn(sa.compare(sb)), "string_view::compare has the sign of std::string_view::compare");
  VASSERT((a == b) == (sa == sb) && (a != b) == (sa != sb), "string_view == / != agree with std");
  VASSERT((a < b) == (sa < sb) && (a > b) == (sa > sb), "string_view < / > agree with std");
  VASSERT(a.size() == sa.size() && a.empty() == sa.empty() && a.data() == sa.data(), "size/empty/data agree with std");
  __builtin_free(p1); __builtin_free(p2);
}
ENTRY h_sv_find_substr() {
  size_t n; char *p = any_bytes(n);
  nostd::string_view a(p, n); std::string_view sa(p, n);
  char ch = (char)nondet_u8(); size_t pos = nondet_u8(); VASSUME(pos <= LEN + 2);
  VASSERT(a.find(ch, pos) == sa.find(ch, pos), "string_view::find(ch,pos) agrees with std for every position");
  size_t cnt = nondet_bool() ? nostd::string_view::npos : (size_t)nondet_u8();
  verif_abort_expected = pos > n;          // out-of-range substr must fail (terminate), as std throws
  nostd::string_view r = a.substr(pos, cnt);
  VASSERT(pos <= n, "substr with pos > size() fails instead of returning a view");
  verif_abort_expected = 0;
  if (pos <= n) {
    std::string_view sr = sa.substr(pos, cnt);
    VASSERT(r.data() == sr.data() && r.size() == sr.size(), "substr(pos,n) yields the same view as std");
  }
  __builtin_free(p);
}
ENTRY h_sv_hash() {
  size_t n1, n2; char *p1 = any_bytes(n1); char *p2 = any_bytes(n2);
  nostd::string_view a(p1, n1), b(p2, n2);
  std::hash<nostd::string_view> h;
  if (a == b) VASSERT(h(a) == h(b), "equal string_views hash equally");
  __builtin_free(p1); __builtin_free(p2);
}
ENTRY h_span() {
  size_t n = nondet_u8(); VASSUME(n <= LEN);
  int *buf = (int *)__builtin_malloc((n ? n : 1) * sizeof(int));
  for (size_t i = 0; i < LEN; i++) if (i < n) buf[i] = (int)nondet_u32();
  nostd::span<int> s(buf, n);
  VASSERT(s.size() == n && s.empty() == (n == 0) && s.data() == buf, "span(ptr,count): size/empty/data");
  VASSERT(s.begin() == buf && s.end() == buf + n, "span begin/end delimit exactly the elements");
  size_t i = nondet_u8(); VASSUME(i < n);
  VASSERT(&s[i] == buf + i && s[i] == buf[i], "span operator[] addresses element i");
  nostd::span<int> s2(buf, buf + n);
  VASSERT(s2.size() == n && s2.data() == buf, "span(first,last) covers the range");
  nostd::span<const int> cs(s);
  VASSERT(cs.size() == n && cs.data() == buf, "converting span keeps extent and data");
  int arr[3] = {1, 2, 3};
  nostd::span<int, 3> fs(arr);
  VASSERT(fs.size() == 3 && fs[2] == 3 && !fs.empty(), "static-extent span over an array");
  __builtin_free(buf);
}
// ---- ownership: instance counting payload, two families (0: nostd side, 1: std side)
static int g_live[2], g_dtor[2][4], g_next[2];
struct Obj {
  int fam, id;
  Obj(int f) : fam(f), id(g_next[f]++) { g_live[f]++; }
  ~Obj() { g_live[fam]--; g_dtor[fam][id]++; }
};
static void ownership_end_checks(const char *l_once, const char *l_none) {
  bool once = true;
  for (int f = 0; f < 2; f++) for (int i = 0; i < 4; i++) once = once && (i < g_next[f] ? g_dtor[f][i] == 1 : g_dtor[f][i] == 0);
  __VERIFIER_assert(once, l_once);
  __VERIFIER_assert(g_live[0] == 0 && g_live[1] == 0, l_none);
}
ENTRY h_unique_ptr() {
  {
    nostd::unique_ptr<Obj> h0(new Obj(0)), h1; std::unique_ptr<Obj> g0(new Obj(1)), g1;
    for (int step = 0; step < 3; step++) {
      uint8_t op = nondet_u8() % 5; bool i = nondet_bool(), j = nondet_bool();
      nostd::unique_ptr<Obj> &a = i ? h1 : h0, &b = j ? h1 : h0; std::unique_ptr<Obj> &sa = i ? g1 : g0, &sb = j ? g1 : g0;
      if (op == 0) { if (i != j) { a = std::move(b); sa = std::move(sb); } }            // move-assign (distinct handles)
      else if (op == 1) { a.reset(); sa.reset(); }
      else if (op == 2) { a.reset(new Obj(0)); sa.reset(new Obj(1)); VASSUME(g_next[0] <= 4); }
      else if (op == 3) { a.swap(b); sa.swap(sb); }
      else { Obj *p = a.release(); Obj *q = sa.release(); VASSERT((p == nullptr) == (q == nullptr), "unique_ptr::release returns null alike"); delete p; delete q; }
      VASSERT((h0.get() == nullptr) == (g0.get() == nullptr) && (h1.get() == nullptr) == (g1.get() == nullptr), "unique_ptr: same null pattern as std after every op");
      VASSERT((!h0 || h0->id == g0->id) && (!h1 || h1->id == g1->id), "unique_ptr: handles own the corresponding objects");
      VASSERT(g_live[0] == g_live[1], "unique_ptr: same number of live objects as std after every op");
    }
  }
  ownership_end_checks("unique_ptr: every managed object destroyed exactly once", "unique_ptr: nothing leaked");
}
ENTRY h_shared_ptr() {
  {
    nostd::shared_ptr<Obj> h0(new Obj(0)), h1; std::shared_ptr<Obj> g0(new Obj(1)), g1;
    for (int step = 0; step < 2; step++) {
      uint8_t op = nondet_u8() % 5; bool i = nondet_bool(), j = nondet_bool();
      nostd::shared_ptr<Obj> &a = i ? h1 : h0, &b = j ? h1 : h0; std::shared_ptr<Obj> &sa = i ? g1 : g0, &sb = j ? g1 : g0;
      if (op == 0) { a = b; sa = sb; }                          // copy-assign, aliasing (i == j) allowed
      else if (op == 1) { a = std::move(b); sa = std::move(sb); }
      else if (op == 2) { a = nullptr; sa = nullptr; }
      else if (op == 3) { a.swap(b); sa.swap(sb); }
      else { a = nostd::shared_ptr<Obj>(new Obj(0)); sa = std::shared_ptr<Obj>(new Obj(1)); VASSUME(g_next[0] <= 4); }
      VASSERT((h0.get() == nullptr) == (g0.get() == nullptr) && (h1.get() == nullptr) == (g1.get() == nullptr), "shared_ptr: same null pattern as std after every op");
      VASSERT((!h0 || h0->id == g0->id) && (!h1 || h1->id == g1->id), "shared_ptr: handles own the corresponding objects");
      VASSERT(g_live[0] == g_live[1], "shared_ptr: same number of live objects as std after every op");
    }
  }
  ownership_end_checks("shared_ptr: every managed object destroyed exactly once", "shared_ptr: nothing leaked");
}
ENTRY h_variant_function_ref() {
  uint8_t which = nondet_u8() % 3; int64_t iv = (int64_t)nondet_u64(); bool bv = nondet_bool(); double dv = nondet_double();
  nostd::variant<bool, int64_t, double> v; std::variant<bool, int64_t, double> sv;
  if (which == 0) { v = bv; sv = bv; } else if (which == 1) { v = iv; sv = iv; } else { v = dv; sv = dv; }
  VASSERT(v.index() == sv.index() && v.index() == which, "variant::index selects the assigned alternative like std");
  VASSERT(nostd::holds_alternative<bool>(v) == std::holds_alternative<bool>(sv) && nostd::holds_alternative<int64_t>(v) == std::holds_alternative<int64_t>(sv) &&
          nostd::holds_alternative<double>(v) == std::holds_alternative<double>(sv), "holds_alternative agrees with std");
  if (which == 1) VASSERT(nostd::get<int64_t>(v) == iv && *nostd::get_if<int64_t>(&v) == iv && nostd::get_if<bool>(&v) == nullptr, "get/get_if return the stored int64");
  if (which == 0) VASSERT(nostd::get<bool>(v) == bv, "get returns the stored bool");
  int visited = nostd::visit([](auto &&x) -> int { using T = typename std::decay<decltype(x)>::type; return std::is_same<T, bool>::value ? 0 : (std::is_same<T, int64_t>::value ? 1 : 2); }, v);
  VASSERT(visited == which, "visit dispatches to the active alternative");
  int calls = 0; int64_t seen = 0;
  auto fn = [&](int64_t x, bool y) -> int64_t { calls++; seen = x; return y ? x : ~x; };
  nostd::function_ref<int64_t(int64_t, bool)> fr(fn);
  int64_t r = fr(iv, bv);
  VASSERT(calls == 1 && seen == iv && r == (bv ? iv : ~iv), "function_ref invokes the referenced callable once with the given arguments");
  VASSERT(bool(fr), "bound function_ref is truthy");
}
