// Harness vocabulary (see DESIGN.md 2.1). Harness TUs are ordinary C++17 compiled twice:
// by clang++-14 to LLVM IR (-> ir2c.py -> CBMC) and by g++ natively (replay / witness validation).
#pragma once
#include <cstddef>
#include <cstdint>
extern "C" {
uint8_t nondet_u8();
uint16_t nondet_u16();
uint32_t nondet_u32();
uint64_t nondet_u64();
double nondet_double();
float nondet_float();
bool nondet_bool();
#if defined(__clang__)
__attribute__((nomerge))   // keep every assertion call site distinct (its label must stay a literal)
#endif
void __VERIFIER_assert(bool c, const char *label);
void __VERIFIER_assume(bool c);
}
#define ENTRY extern "C" __attribute__((noinline)) void
#define VASSERT(c, label) __VERIFIER_assert((c), label)
#define VASSUME(c) __VERIFIER_assume(c)
// known-finding exclusion: compiled in only when the runner passes -D<KF id> (see known_findings.json)
#define KF_EXCLUDE(cond) __VERIFIER_assume(!(cond))
