// C15: Baggage header round trip (UrlEncode / UrlDecode / tokenizer / metadata), Set / Delete list semantics,
// extraction from arbitrary bytes. Key and value lengths are exact per query (KLEN, VLEN, LEN); characters range
// over a small concrete alphabet that contains every class the encoder distinguishes.
#include "verif.h"
#include "opentelemetry/baggage/baggage.h"
using namespace opentelemetry;
using baggage::Baggage;
#ifndef KLEN
#define KLEN 1
#endif
#ifndef VLEN
#define VLEN 1
#endif
#ifndef LEN
#define LEN 3
#endif
#ifndef NSTART
#define NSTART 2
#endif
// alphabet: unreserved (a Z 0 - ~), space, the three separators, the two escape characters, a quote and '/'
static char pick_char() {
  uint8_t s = nondet_u8() & 15;
  return s == 0 ? 'a' : s == 1 ? 'Z' : s == 2 ? '0' : s == 3 ? ' ' : s == 4 ? '=' : s == 5 ? ',' : s == 6 ? '%' : s == 7 ? '+' : s == 8 ? ';'
       : s == 9 ? '~' : s == 10 ? '"' : s == 11 ? '-' : s == 12 ? '/' : s == 13 ? 'f' : s == 14 ? '4' : '!';
}
static bool printable(char c) { return c >= ' ' && c <= '~'; }
struct Got { int n; bool key_match; bool val_match; size_t vsize; };
// Set(key,value) on the empty baggage -> ToHeader -> FromHeader -> the same single entry
ENTRY h_roundtrip() {
  char key[KLEN + 1]; char val[VLEN + 1];
  for (int i = 0; i < KLEN; i++) key[i] = pick_char();
  for (int i = 0; i < VLEN; i++) val[i] = pick_char();
  key[KLEN] = 0; val[VLEN] = 0;
  // quantifier of the property: no unescaped member separator after ';' in the value
  bool meta = false; bool sep_in_meta = false;
  for (int i = 0; i < VLEN; i++) { if (val[i] == ';') meta = true; else if (meta && val[i] == ',') sep_in_meta = true; }
  VASSUME(!sep_in_meta);
#ifdef KF_C15_META_WS
  // known finding F14: white space at the end of the ;metadata part is trimmed by the tokenizer
  VASSUME(!(meta && VLEN > 0 && (val[VLEN - 1] == ' ')));
#endif
  Baggage empty;
  auto b1 = empty.Set(nostd::string_view(key, KLEN), nostd::string_view(val, VLEN));
  std::string h = b1->ToHeader();
  bool header_printable = true; bool no_raw_space_before_meta = true; bool seen_semicolon = false;
  for (size_t i = 0; i < h.size(); i++) {
    header_printable = header_printable && printable(h[i]);
    if (h[i] == ';') seen_semicolon = true;
    if (!seen_semicolon && h[i] == ' ') no_raw_space_before_meta = false;
  }
  VASSERT(header_printable, "ToHeader writes printable characters only");
  VASSERT(no_raw_space_before_meta, "ToHeader escapes every space in the key and value part");
  auto b2 = Baggage::FromHeader(h);
  Got g; g.n = 0; g.key_match = false; g.val_match = false; g.vsize = 0;
  b2->GetAllEntries([&](nostd::string_view k, nostd::string_view v) noexcept {
    if (g.n == 0) {
      g.key_match = k.size() == KLEN; for (size_t i = 0; i < k.size() && i < KLEN; i++) g.key_match = g.key_match && k[i] == key[i];
      g.val_match = v.size() == VLEN; for (size_t i = 0; i < v.size() && i < VLEN; i++) g.val_match = g.val_match && v[i] == val[i];
      g.vsize = v.size();
    }
    g.n++;
    return true;
  });
  VASSERT(g.n == 1, "FromHeader(ToHeader(b)) has exactly the one entry that was set");
  VASSERT(g.key_match, "the key survives encode/decode unchanged");
  VASSERT(g.val_match, "the value (with its ;metadata part) survives encode/decode unchanged");
  int n1 = 0; b1->GetAllEntries([&](nostd::string_view, nostd::string_view) noexcept { n1++; return true; });
  int n0 = 0; empty.GetAllEntries([&](nostd::string_view, nostd::string_view) noexcept { n0++; return true; });
  VASSERT(n1 == 1 && n0 == 0, "Set returns a new baggage and leaves the receiver unchanged");
}
// list semantics
struct Model { int n; char k[6]; char v[6]; bool shape_ok; };
static void collect(Baggage &b, Model &m) {
  m.n = 0; m.shape_ok = true;
  b.GetAllEntries([&m](nostd::string_view k, nostd::string_view v) noexcept {
    if (m.n < 6) { if (k.size() != 1 || v.size() != 1) m.shape_ok = false; else { m.k[m.n] = k[0]; m.v[m.n] = v[0]; } }
    m.n++;
    return true;
  });
}
static bool same(const Model &a, const Model &b) {
  if (a.n != b.n || !a.shape_ok || !b.shape_ok) return false;
  for (int i = 0; i < a.n && i < 6; i++) if (a.k[i] != b.k[i] || a.v[i] != b.v[i]) return false;
  return true;
}
static char pick_any_char() { uint8_t s = nondet_u8() & 7; return s == 0 ? 'a' : s == 1 ? 'b' : s == 2 ? ' ' : s == 3 ? '=' : s == 4 ? ',' : s == 5 ? '~' : s == 6 ? '\x7f' : '\x1f'; }
static nostd::shared_ptr<Baggage> start_state(Model &m) {
  nostd::shared_ptr<Baggage> b(new Baggage(NSTART));
  m.n = NSTART; m.shape_ok = true;
  for (int i = 0; i < NSTART; i++) {
    char k = pick_any_char(); char v = pick_any_char();
    VASSUME(printable(k) && printable(v));
    for (int j = 0; j < i; j++) VASSUME(m.k[j] != k);
    m.k[i] = k; m.v[i] = v;
    b->kv_properties_->AddEntry(nostd::string_view(&m.k[i], 1), nostd::string_view(&m.v[i], 1));
  }
  return b;
}
ENTRY h_set() {
  Model before; auto b = start_state(before);
  char key = pick_any_char(); char val = pick_any_char();
  auto r = b->Set(nostd::string_view(&key, 1), nostd::string_view(&val, 1));
  Model after; collect(*r, after);
  Model orig; collect(*b, orig);
  VASSERT(same(orig, before), "Set does not modify the baggage it is called on");
  if (!printable(key) || !printable(val)) {
    VASSERT(same(after, before), "Set with an invalid key or value returns a copy of the current baggage");
  } else {
    int present = -1; for (int i = 0; i < before.n; i++) if (before.k[i] == key) present = i;
    Model want; want.shape_ok = true; want.k[0] = key; want.v[0] = val; want.n = 1;
    for (int i = 0; i < before.n; i++) if (i != present) { want.k[want.n] = before.k[i]; want.v[want.n] = before.v[i]; want.n++; }
    VASSERT(same(after, want), "Set replaces an existing key / adds a new one and keeps every other entry once, in order");
    std::string got;
    bool found = r->GetValue(nostd::string_view(&key, 1), got);
    VASSERT(found && got.size() == 1 && got[0] == val, "GetValue returns the value most recently set");
  }
}
ENTRY h_delete() {
  Model before; auto b = start_state(before);
  char key = pick_any_char();
  auto r = b->Delete(nostd::string_view(&key, 1));
  Model after; collect(*r, after);
  Model orig; collect(*b, orig);
  VASSERT(same(orig, before), "Delete does not modify the baggage it is called on");
  Model want; want.n = 0; want.shape_ok = true;
  for (int i = 0; i < before.n; i++) if (before.k[i] != key) { want.k[want.n] = before.k[i]; want.v[want.n] = before.v[i]; want.n++; }
  VASSERT(same(after, want), "Delete removes exactly the given key and keeps the rest in order");
}
// list of NSTART one-byte entries -> ToHeader -> FromHeader -> same ordered list
ENTRY h_list_roundtrip() {
  Model before; auto b = start_state(before);
  for (int i = 0; i < NSTART; i++) VASSUME(before.v[i] != ';');
  std::string h = b->ToHeader();
  auto back = Baggage::FromHeader(h);
  Model again; collect(*back, again);
  VASSERT(same(again, before), "ToHeader followed by FromHeader reproduces the same entries in the same order");
}
// any header bytes: no out-of-bounds access (checked by the engine), every kept member valid
ENTRY h_from_any_header() {
  const size_t n = LEN;
  char *buf = (char *)__builtin_malloc(LEN ? LEN : 1);
  for (size_t i = 0; i < LEN; i++) buf[i] = (char)nondet_u8();
  auto b = Baggage::FromHeader(nostd::string_view(buf, n));
  bool all_ok = true; int cnt = 0;
  b->GetAllEntries([&](nostd::string_view k, nostd::string_view v) noexcept {
    cnt++;
    bool ok = k.size() > 0;
    for (size_t i = 0; i < k.size(); i++) ok = ok && printable(k[i]);
    for (size_t i = 0; i < v.size() && v[i] != ';'; i++) ok = ok && printable(v[i]);
    all_ok = all_ok && ok;
    return true;
  });
  VASSERT(all_ok, "every member kept by FromHeader has a non-empty printable key and a printable value part");
  VASSERT(cnt <= (int)Baggage::kMaxKeyValuePairs && cnt <= LEN, "FromHeader keeps at most the member limit");
  __builtin_free(buf);
}
