// C19 (names/units): real InstrumentMetaDataValidator (instrument_metadata_validator.cc) with std::regex construction
// and std::regex_match(const char*, regex) replaced by models generated from the real pattern literals. The argument
// is a string_view over an exactly sized buffer WITHOUT terminator and possibly containing NUL bytes.
#include "verif.h"
#include "sdk/src/metrics/instrument_metadata_validator.cc"
using namespace opentelemetry;
namespace m = opentelemetry::sdk::metrics;
#ifndef LEN
#define LEN 3
#endif
static bool name_ok(const char *s, size_t n) {
  if (n < 1 || n > 255) return false;
  for (size_t i = 0; i < n; i++) { char c = s[i]; bool al = (c >= 'a' && c <= 'z') || (c >= 'A' && c <= 'Z'); if (i == 0 ? !al : !(al || (c >= '0' && c <= '9') || c == '_' || c == '.' || c == '-' || c == '/')) return false; }
  return true;
}
static bool unit_ok(const char *s, size_t n) { if (n > 63) return false; for (size_t i = 0; i < n; i++) if (s[i] < 1) return false; return true; }   // 0x01..0x7f
ENTRY h_validate() {
  m::InstrumentMetaDataValidator v;
  char *buf = (char *)__builtin_malloc(LEN ? LEN : 1);          // exactly LEN bytes, no terminator
  for (size_t i = 0; i < LEN; i++) buf[i] = (char)nondet_u8();
  bool rn = v.ValidateName(nostd::string_view(buf, LEN));
  VASSERT(rn == name_ok(buf, LEN), "ValidateName accepts exactly letter + up to 254 of [A-Za-z0-9_.-/] over the bytes of the view");
  bool ru = v.ValidateUnit(nostd::string_view(buf, LEN));
  VASSERT(ru == unit_ok(buf, LEN), "ValidateUnit accepts exactly up to 63 ASCII bytes (0x01-0x7f) of the view");
  __builtin_free(buf);
}
