// C02 (aggregation, logs): MultiLogRecordProcessor::ForceFlush / Shutdown over mock children with symbolic results, symbolic
// non-negative timeout and an arbitrary non-decreasing clock: forwarded once to each child, true only if every child flushed,
// (the time budget handed to each child involves 64-bit divisions of symbolic clock values: measured, no SAT verdict in 150 s with
// minisat, cadical or kissat - the budget is therefore not asserted).
#include "verif.h"
#include "sdk/src/logs/multi_log_record_processor.cc"
#include "sdk/src/logs/multi_recordable.cc"
using namespace opentelemetry;
namespace sdkl = opentelemetry::sdk::logs;
#ifndef NCHILD
#define NCHILD 2
#endif
static bool g_ff_ret[3], g_sd_ret[3]; static int g_ff_calls[3], g_sd_calls[3]; static int64_t g_budget; static bool g_budget_ok = true;
struct Child : sdkl::LogRecordProcessor {
  int idx; explicit Child(int i) : idx(i) {}
  std::unique_ptr<sdkl::Recordable> MakeRecordable() noexcept override { return nullptr; }
  void OnEmit(std::unique_ptr<sdkl::Recordable> &&) noexcept override {}
  bool ForceFlush(std::chrono::microseconds t) noexcept override { g_ff_calls[idx]++; return g_ff_ret[idx]; }
  bool Shutdown(std::chrono::microseconds t) noexcept override { g_sd_calls[idx]++; return g_sd_ret[idx]; }
};
ENTRY h_multi_log_aggregate() {
  std::vector<std::unique_ptr<sdkl::LogRecordProcessor>> none;
  auto *mp = new sdkl::MultiLogRecordProcessor(std::move(none));      // never destroyed (its destructor shuts down again)
  bool all_ff = true;
  for (int i = 0; i < NCHILD; i++) { g_ff_ret[i] = nondet_bool(); g_sd_ret[i] = nondet_bool(); all_ff = all_ff && g_ff_ret[i]; mp->AddProcessor(std::unique_ptr<sdkl::LogRecordProcessor>(new Child(i))); }
  bool unlimited = nondet_bool();
  uint64_t t = nondet_u64(); VASSUME(t < (1ULL << 62));
  g_budget = unlimited ? std::chrono::microseconds::max().count() : (int64_t)t;
  bool ff = mp->ForceFlush(std::chrono::microseconds(g_budget));
  bool once = true; for (int i = 0; i < NCHILD; i++) once = once && g_ff_calls[i] == 1;
  VASSERT(once, "log processors: ForceFlush is forwarded to every child processor exactly once");
  VASSERT(!ff || all_ff, "log processors: ForceFlush reports true only if every child reported true");
  mp->Shutdown(std::chrono::microseconds(g_budget));
  once = true; for (int i = 0; i < NCHILD; i++) once = once && g_sd_calls[i] == 1;
  VASSERT(once, "log processors: Shutdown is forwarded to every child processor exactly once");
}
