// C16: B3 (single / multi header) and Jaeger propagators through their public Inject/Extract.
#include "verif.h"
#include "opentelemetry/trace/propagation/b3_propagator.h"
#include "opentelemetry/trace/propagation/jaeger.h"
using namespace opentelemetry;
namespace prop = opentelemetry::trace::propagation;
#ifndef LEN
#define LEN 8
#endif
#define NSLOT 4
struct Carrier : context::propagation::TextMapCarrier {
  const char *keys[NSLOT] = {"b3", "X-B3-TraceId", "X-B3-SpanId", "X-B3-Sampled"};
  const char *jaeger_key = "uber-trace-id";
  char val[NSLOT + 1][72]; size_t len[NSLOT + 1] = {0, 0, 0, 0, 0}; int nset[NSLOT + 1] = {0, 0, 0, 0, 0}; int other = 0;
  // externally supplied (exactly sized) buffers for the extract side
  const char *ext[NSLOT + 1] = {nullptr, nullptr, nullptr, nullptr, nullptr}; size_t ext_len[NSLOT + 1] = {0, 0, 0, 0, 0};
  int slot(nostd::string_view key) const {
    for (int i = 0; i < NSLOT; i++) if (key == keys[i]) return i;
    if (key == jaeger_key) return NSLOT;
    return -1;
  }
  nostd::string_view Get(nostd::string_view key) const noexcept override {
    int s = slot(key);
    if (s < 0) return "";
    if (ext[s]) return nostd::string_view(ext[s], ext_len[s]);
    return nostd::string_view(val[s], len[s]);
  }
  void Set(nostd::string_view key, nostd::string_view value) noexcept override {
    int s = slot(key);
    if (s < 0) { other++; return; }
    nset[s]++; len[s] = value.size();
    for (size_t i = 0; i < value.size() && i < 72; i++) val[s][i] = value[i];
  }
};
static trace::SpanContext any_valid_context() {
  uint8_t tid[16], sid[8];
  for (int i = 0; i < 16; i++) tid[i] = nondet_u8();
  for (int i = 0; i < 8; i++) sid[i] = nondet_u8();
  uint8_t fl = nondet_u8(); bool remote = nondet_bool();   // sequenced: argument evaluation order differs between clang and g++
  trace::SpanContext sc(trace::TraceId(tid), trace::SpanId(sid), trace::TraceFlags(fl), remote);
  VASSUME(sc.IsValid());
  return sc;
}
static context::Context with_span(const trace::SpanContext &sc) {
  context::Context root;
  return trace::SetSpan(root, nostd::shared_ptr<trace::Span>(new trace::DefaultSpan(sc)));
}
template <class P>
static inline __attribute__((always_inline)) void roundtrip(const char *l_valid, const char *l_ids, const char *l_sampled) {
  trace::SpanContext sc = any_valid_context();
  context::Context ctx = with_span(sc);
  Carrier c; P p;
  p.Inject(c, ctx);
  context::Context empty;
  context::Context out = p.Extract(c, empty);
  trace::SpanContext back = trace::GetSpan(out)->GetContext();
  VASSERT(back.IsValid() && back.IsRemote(), l_valid);
  VASSERT(back.trace_id() == sc.trace_id() && back.span_id() == sc.span_id(), l_ids);
  VASSERT(back.IsSampled() == sc.IsSampled(), l_sampled);
}
ENTRY h_b3_single_roundtrip() {
  roundtrip<prop::B3Propagator>("b3 single: injected header extracts to a valid remote context",
                                "b3 single: round trip preserves trace id and span id",
                                "b3 single: round trip preserves the sampled decision for every flags byte");
}
ENTRY h_b3_multi_roundtrip() {
  roundtrip<prop::B3PropagatorMultiHeader>("b3 multi: injected headers extract to a valid remote context",
                                           "b3 multi: round trip preserves trace id and span id",
                                           "b3 multi: round trip preserves the sampled decision for every flags byte");
}
ENTRY h_jaeger_roundtrip() {
  roundtrip<prop::JaegerPropagator>("jaeger: injected header extracts to a valid remote context",
                                    "jaeger: round trip preserves trace id and span id",
                                    "jaeger: round trip preserves the sampled decision for every flags byte");
}
// ---- totality: arbitrary bytes of length LEN in one header (exactly-sized heap object)
static inline __attribute__((always_inline)) void totality(int which, context::propagation::TextMapPropagator &p, const char *l1, const char *l2) {
  uint8_t *buf = (uint8_t *)__builtin_malloc(LEN ? LEN : 1);
  for (size_t i = 0; i < LEN; i++) buf[i] = nondet_u8();
  Carrier c; c.ext[which] = (const char *)buf; c.ext_len[which] = LEN;
  context::Context empty;
  context::Context out = p.Extract(c, empty);
  trace::SpanContext back = trace::GetSpan(out)->GetContext();
  if (out == empty) VASSERT(!back.IsValid(), l1);
  else VASSERT(back.IsValid() && back.IsRemote(), l2);
  __builtin_free(buf);
}
ENTRY h_b3_single_total() {
  prop::B3Propagator p;
  totality(0, p, "b3 single: rejected header returns the caller's context unchanged", "b3 single: installed context has non-zero ids and is remote");
}
ENTRY h_jaeger_total() {
  prop::JaegerPropagator p;
  totality(NSLOT, p, "jaeger: rejected header returns the caller's context unchanged", "jaeger: installed context has non-zero ids and is remote");
}
// ---- documented variants of B3 extraction (ids symbolic hex digits)
static char hexd(uint8_t v) { return v < 10 ? char('0' + v) : char('a' + v - 10); }
ENTRY h_b3_variants() {
  // 16-hex (64-bit) trace id, 16-hex span id, optional flag field
  char hdr[16 + 1 + 16 + 2]; uint8_t tid[8], sid[8];
  for (int i = 0; i < 8; i++) { tid[i] = nondet_u8(); sid[i] = nondet_u8(); hdr[2 * i] = hexd(tid[i] >> 4); hdr[2 * i + 1] = hexd(tid[i] & 15); hdr[17 + 2 * i] = hexd(sid[i] >> 4); hdr[18 + 2 * i] = hexd(sid[i] & 15); }
  hdr[16] = '-'; hdr[33] = '-';
  uint8_t flag = nondet_u8(); hdr[34] = (char)flag;
  bool with_flag = nondet_bool();
  bool tz = true, sz = true; for (int i = 0; i < 8; i++) { tz = tz && tid[i] == 0; sz = sz && sid[i] == 0; }
  VASSUME(!tz && !sz);
  Carrier c; c.ext[0] = hdr; c.ext_len[0] = with_flag ? 35 : 33;
  // multi headers present too: must be ignored because b3 is present
  c.ext[1] = "00000000000000000000000000000001"; c.ext_len[1] = 32; c.ext[2] = "0000000000000001"; c.ext_len[2] = 16; c.ext[3] = "1"; c.ext_len[3] = 1;
  prop::B3Propagator p; context::Context empty;
  context::Context out = p.Extract(c, empty);
  trace::SpanContext back = trace::GetSpan(out)->GetContext();
  VASSERT(back.IsValid() && back.IsRemote(), "b3: 64-bit trace id header is accepted");
  bool ok = true;
  for (int i = 0; i < 8; i++) ok = ok && back.trace_id().Id()[i] == 0 && back.trace_id().Id()[8 + i] == tid[i] && back.span_id().Id()[i] == sid[i];
  VASSERT(ok, "b3: 64-bit trace id is left-padded with zeros; single header wins over X-B3-*");
  bool want = with_flag && (flag == '1' || flag == 'd');
  VASSERT(back.IsSampled() == want, "b3: sampled iff flag is 1 or d; missing flag means not sampled");
}
