// C04: real SpanData (the SDK's default recordable): what the exporter reads back is what was set last, as owned copies
// that do not depend on the caller's buffers (buffers are freed before the getters are read).
#include "verif.h"
#include <cstdlib>
#include "opentelemetry/sdk/trace/span_data.h"
using namespace opentelemetry;
namespace sdkt = opentelemetry::sdk::trace;
static char *any_buf(int n, char *save) { char *b = (char *)malloc(n); for (int i = 0; i < n; i++) { char c = (char)nondet_u8(); b[i] = c; save[i] = c; } return b; }
static bool same(nostd::string_view v, const char *s, size_t n) { if (v.size() != n) return false; for (size_t i = 0; i < n; i++) if (v[i] != s[i]) return false; return true; }
ENTRY h_spandata_scalars() {
  auto *sd = new sdkt::SpanData;          // not destroyed inside the query
  // ---- name: UpdateName twice, last wins; buffers freed before reading
  char n1s[3], n2s[2];
  char *n1 = any_buf(3, n1s); char *n2 = any_buf(2, n2s);
  bool second_name = nondet_bool();
  sd->SetName(nostd::string_view(n1, 3));
  if (second_name) sd->SetName(nostd::string_view(n2, 2));
  free(n1); free(n2);
  // ---- status: two SetStatus calls with symbolic codes and descriptions of symbolic length 0 or 2
  char d1s[2], d2s[2];
  char *d1 = any_buf(2, d1s); char *d2 = any_buf(2, d2s);
  uint8_t c1 = nondet_u8() % 3; uint8_t c2 = nondet_u8() % 3;
  size_t l1 = nondet_bool() ? 2 : 0; size_t l2 = nondet_bool() ? 2 : 0;
  bool second_status = nondet_bool();
  sd->SetStatus((trace::StatusCode)c1, nostd::string_view(d1, l1));
  if (second_status) sd->SetStatus((trace::StatusCode)c2, nostd::string_view(d2, l2));
  free(d1); free(d2);
  // ---- identity, flags, kind, times
  uint8_t tid[16], sid[8], pid[8];
  for (int i = 0; i < 16; i++) tid[i] = nondet_u8();
  for (int i = 0; i < 8; i++) sid[i] = nondet_u8();
  for (int i = 0; i < 8; i++) pid[i] = nondet_u8();
  uint8_t fl = nondet_u8(); uint8_t kind = nondet_u8() % 5; uint64_t st = nondet_u64(); uint64_t du = nondet_u64();
  VASSUME(st < (1ULL << 62) && du < (1ULL << 62));
  sd->SetIdentity(trace::SpanContext(trace::TraceId(tid), trace::SpanId(sid), trace::TraceFlags(fl), false), trace::SpanId(pid));
  sd->SetTraceFlags(trace::TraceFlags(fl));
  sd->SetSpanKind((trace::SpanKind)kind);
  sd->SetStartTime(common::SystemTimestamp(std::chrono::nanoseconds((int64_t)st)));
  sd->SetDuration(std::chrono::nanoseconds((int64_t)du));
  // ---- read back
  VASSERT(second_name ? same(sd->GetName(), n2s, 2) : same(sd->GetName(), n1s, 3), "span data: the name is the last one set, held as an owned copy");
  VASSERT(sd->GetStatus() == (trace::StatusCode)(second_status ? c2 : c1), "span data: the status code is the last one set");
  VASSERT(second_status ? same(sd->GetDescription(), d2s, l2) : same(sd->GetDescription(), d1s, l1), "span data: the status description is the last one set (an empty one included), held as an owned copy");
  uint8_t rt[16], rs[8], rp[8];
  sd->GetTraceId().CopyBytesTo(nostd::span<uint8_t, 16>(rt)); sd->GetSpanId().CopyBytesTo(nostd::span<uint8_t, 8>(rs)); sd->GetParentSpanId().CopyBytesTo(nostd::span<uint8_t, 8>(rp));
  VASSERT(__builtin_memcmp(rt, tid, 16) == 0 && __builtin_memcmp(rs, sid, 8) == 0 && __builtin_memcmp(rp, pid, 8) == 0 && sd->GetFlags().flags() == fl, "span data: trace id, span id, parent span id and flags are the ones set");
  VASSERT((uint8_t)sd->GetSpanKind() == kind && (uint64_t)sd->GetStartTime().time_since_epoch().count() == st && (uint64_t)sd->GetDuration().count() == du, "span data: kind, start time and duration are the ones set");
}
