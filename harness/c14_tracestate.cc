// C14: TraceState list semantics (FromHeader / Set / Delete / Get / ToHeader) and tokenizer safety.
// Keys and values are single symbolic characters (valid and invalid); the list shape NSTART is per query.
#include "verif.h"
#include "opentelemetry/trace/trace_state.h"
using namespace opentelemetry;
using trace::TraceState;
#ifndef NSTART
#define NSTART 2
#endif
#ifndef LEN
#define LEN 5
#endif
static const int kLimit = TraceState::kMaxKeyValuePairs;   // 32 in the real header; 3 in the scaled build (Q4)
struct Model { int n; char k[6]; char v[6]; bool shape_ok; };
static bool valid_k(char c) { return (c >= 'a' && c <= 'z') || (c >= '0' && c <= '9'); }
static bool valid_v(char c) { return c >= 0x21 && c <= 0x7e && c != ',' && c != '='; }
static void collect(TraceState &ts, Model &m) {
  m.n = 0; m.shape_ok = true;
  ts.GetAllEntries([&m](nostd::string_view k, nostd::string_view v) noexcept {
    if (m.n < 6) { if (k.size() != 1 || v.size() != 1) m.shape_ok = false; else { m.k[m.n] = k[0]; m.v[m.n] = v[0]; } }
    m.n++;
    return true;
  });
}
static bool same(const Model &a, const Model &b) {
  if (a.n != b.n || !a.shape_ok || !b.shape_ok) return false;
  for (int i = 0; i < a.n && i < 6; i++) if (a.k[i] != b.k[i] || a.v[i] != b.v[i]) return false;
  return true;
}
static bool no_dup(const Model &m) { for (int i = 0; i < m.n && i < 6; i++) for (int j = i + 1; j < m.n && j < 6; j++) if (m.k[i] == m.k[j]) return false; return true; }
// Symbolic characters range over a small concrete alphabet (valid, invalid and separator characters): the value
// is an if-then-else over constants, so zero tests / strlen fold during symbolic execution and every allocation
// size stays concrete. The character-level grammar itself is decided for ALL bytes by the regex queries (Q1).
static char pick_key_char() { uint8_t s = nondet_u8() & 7; return s == 0 ? 'a' : s == 1 ? 'b' : s == 2 ? 'c' : s == 3 ? '0' : s == 4 ? 'A' : s == 5 ? ',' : s == 6 ? '=' : '@'; }
static char pick_val_char() { uint8_t s = nondet_u8() & 7; return s == 0 ? '1' : s == 1 ? '2' : s == 2 ? 'x' : s == 3 ? '~' : s == 4 ? ' ' : s == 5 ? ',' : s == 6 ? '=' : '\x7f'; }
// start state: NSTART distinct valid single-char members, built through the real KeyValueProperties::AddEntry
static nostd::shared_ptr<TraceState> start_state(Model &m) {
  nostd::shared_ptr<TraceState> ts(new TraceState(NSTART));
  m.n = NSTART; m.shape_ok = true;
  for (int i = 0; i < NSTART; i++) {
    char k = pick_key_char(); char v = pick_val_char();
    VASSUME(valid_k(k) && valid_v(v));
    for (int j = 0; j < i; j++) VASSUME(m.k[j] != k);
    m.k[i] = k; m.v[i] = v;
    ts->kv_properties_->AddEntry(nostd::string_view(&m.k[i], 1), nostd::string_view(&m.v[i], 1));
  }
  return ts;
}
ENTRY h_set() {
  Model before; auto ts = start_state(before);
  char key = pick_key_char(); char val = pick_val_char();
  auto r = ts->Set(nostd::string_view(&key, 1), nostd::string_view(&val, 1));
  Model after; collect(*r, after);
  Model orig; collect(*ts, orig);
  VASSERT(same(orig, before), "Set does not modify the original TraceState");
  if (!valid_k(key) || !valid_v(val)) {
    VASSERT(after.n == 0, "Set with an invalid key or value yields the empty default state");
  } else {
    int present = -1; for (int i = 0; i < before.n; i++) if (before.k[i] == key) present = i;
    if (present < 0 && before.n >= kLimit) {
      VASSERT(same(after, before), "Set of a new key on a full list returns an unchanged copy");
    } else {
      Model want; want.n = 0; want.shape_ok = true;
      want.k[0] = key; want.v[0] = val; want.n = 1;
      for (int i = 0; i < before.n; i++) if (i != present) { want.k[want.n] = before.k[i]; want.v[want.n] = before.v[i]; want.n++; }
      VASSERT(same(after, want), "Set places the key first with the new value and keeps every other member once, in order");
    }
    VASSERT(no_dup(after), "Set never produces two members with the same key");
    VASSERT(after.n <= kLimit, "Set never exceeds the member limit");
    std::string got;
    bool found = r->Get(nostd::string_view(&key, 1), got);
    if (present >= 0 || before.n < kLimit) VASSERT(found && got.size() == 1 && got[0] == val, "Get returns the value most recently set");
  }
}
ENTRY h_delete() {
  Model before; auto ts = start_state(before);
  char key = pick_key_char();
  auto r = ts->Delete(nostd::string_view(&key, 1));
  Model after; collect(*r, after);
  Model orig; collect(*ts, orig);
  VASSERT(same(orig, before), "Delete does not modify the original TraceState");
  if (!valid_k(key)) VASSERT(after.n == 0, "Delete with an invalid key yields the empty default state");
  else {
    Model want; want.n = 0; want.shape_ok = true;
    for (int i = 0; i < before.n; i++) if (before.k[i] != key) { want.k[want.n] = before.k[i]; want.v[want.n] = before.v[i]; want.n++; }
    VASSERT(same(after, want), "Delete removes exactly the given key and keeps the rest in order");
  }
}
ENTRY h_header_roundtrip() {
  Model before; auto ts = start_state(before);
  std::string h = ts->ToHeader();
  VASSERT(h.size() == (NSTART ? 4 * NSTART - 1 : 0), "ToHeader writes k=v members separated by commas");
  bool text = true;
  for (int i = 0; i < NSTART; i++) text = text && h[4 * i] == before.k[i] && h[4 * i + 1] == '=' && h[4 * i + 2] == before.v[i] && (i + 1 == NSTART || h[4 * i + 3] == ',');
  VASSERT(text, "ToHeader renders the members in list order");
  auto back = TraceState::FromHeader(h);
  Model again; collect(*back, again);
  VASSERT(same(again, before), "ToHeader followed by FromHeader reproduces the same ordered list");
}
// any header bytes: every kept member is valid, at most kLimit members, no out-of-bounds access
static bool key_ok(nostd::string_view k) {
  if (k.size() == 0 || !valid_k(k[0])) return false;
  int ats = 0; size_t at = 0;
  for (size_t i = 1; i < k.size(); i++) { char c = k[i]; if (c == '@') { ats++; at = i; } else if (!(valid_k(c) || c == '_' || c == '-' || c == '*' || c == '/')) return false; }
  if (ats > 1) return false;
  if (ats == 1) { if (at + 1 >= k.size() || !valid_k(k[at + 1])) return false; }
  return true;
}
static bool value_ok(nostd::string_view v) {
  if (v.size() == 0) return false;
  for (size_t i = 0; i < v.size(); i++) { char c = v[i]; if (c < 0x20 || c > 0x7e || c == ',' || c == '=') return false; }
  return v[v.size() - 1] != ' ';
}
ENTRY h_from_any_header() {
  const size_t n = LEN;                               // one query per exact length: exactly sized heap object
  char *buf = (char *)__builtin_malloc(LEN ? LEN : 1);
  for (size_t i = 0; i < LEN; i++) buf[i] = (char)nondet_u8();
  auto ts = TraceState::FromHeader(nostd::string_view(buf, n));
  bool all_ok = true; int cnt = 0;
  ts->GetAllEntries([&](nostd::string_view k, nostd::string_view v) noexcept { cnt++; all_ok = all_ok && key_ok(k) && value_ok(v); return true; });
  VASSERT(all_ok, "every member kept by FromHeader has a valid key and value");
  VASSERT(cnt <= kLimit, "FromHeader keeps at most the member limit");
  __builtin_free(buf);
}
// tokenizer: views stay inside the buffer, terminates
ENTRY h_tokenizer() {
  const size_t n = LEN;
  char *buf = (char *)__builtin_malloc(LEN ? LEN : 1);
  for (size_t i = 0; i < LEN; i++) buf[i] = (char)nondet_u8();
  common::KeyValueStringTokenizer tk(nostd::string_view(buf, n));
  VASSERT(tk.NumTokens() <= n, "NumTokens is at most the header length");
  bool inside = true; int calls = 0; bool more = true;
  for (int i = 0; i < LEN + 2; i++) {
    if (!more) break;
    bool valid; nostd::string_view k, v;
    more = tk.next(valid, k, v); calls++;
    if (more && valid) {
      inside = inside && (k.size() == 0 || (k.data() >= buf && k.data() + k.size() <= buf + n));
      inside = inside && (v.size() == 0 || (v.data() >= buf && v.data() + v.size() <= buf + n));
    }
  }
  VASSERT(!more, "tokenizer terminates within length+2 calls");
  VASSERT(inside, "every token view lies inside the header buffer");
  __builtin_free(buf);
}
