// C08: series identity. FilteredOrderedAttributeMap built from two symbolic attribute lists (order, duplicates, filter):
// equal as filtered key->value maps  <=>  operator==, and equal maps hash equally; AttributesHashMap limit / overflow.
#include "verif.h"
#include "opentelemetry/sdk/metrics/state/filtered_ordered_attribute_map.h"
#include "opentelemetry/sdk/metrics/state/attributes_hashmap.h"
#include "opentelemetry/sdk/metrics/view/attributes_processor.h"
#include "opentelemetry/sdk/metrics/aggregation/sum_aggregation.h"
#include "sdk/src/metrics/state/filtered_ordered_attribute_map.cc"
#include "sdk/src/metrics/aggregation/sum_aggregation.cc"
using namespace opentelemetry;
namespace m = opentelemetry::sdk::metrics;
#ifndef NE
#define NE 2
#endif
#define NK 3
#ifdef TYS
static const uint8_t TYA[] = {TYS};
#define TYOF(i) TYA[i]
#else
#define TYOF(i) nondet_u8()
#endif
static const char *KEYS[NK] = {"a", "bb", "c"};
struct KV { uint8_t k; uint8_t ty; int64_t v; };
struct Iter : common::KeyValueIterable {
  KV e[NE]; int n = NE;
  bool ForEachKeyValue(nostd::function_ref<bool(nostd::string_view, common::AttributeValue)> cb) const noexcept override {
    for (int i = 0; i < n; i++) {
      common::AttributeValue av;
      if (e[i].ty == 0) av = (bool)(e[i].v & 1); else av = (int64_t)e[i].v;
      if (!cb(nostd::string_view(KEYS[e[i].k]), av)) return false;
    }
    return true;
  }
  size_t size() const noexcept override { return n; }
};
#ifdef KEYS1
static const uint8_t K1[] = {KEYS1}; static const uint8_t K2[] = {KEYS2};
#endif
static void any_list(Iter &it, const uint8_t *ks) {
  for (int i = 0; i < NE; i++) { uint8_t k = ks ? ks[i] : nondet_u8(); uint8_t ty = TYOF(i); uint64_t v = nondet_u64(); VASSUME(k < NK && ty < 2); it.e[i].k = k; it.e[i].ty = ty; it.e[i].v = (int64_t)v; }
}
struct Filter : m::AttributesProcessor {
  bool allow[NK];
  m::MetricAttributes process(const common::KeyValueIterable &a) const noexcept override { return m::MetricAttributes(a, this); }
  bool isPresent(nostd::string_view key) const noexcept override { for (int k = 0; k < NK; k++) if (key == KEYS[k]) return allow[k]; return false; }
};
struct Model { bool present[NK]; uint8_t ty[NK]; int64_t v[NK]; };
static void model_of(const Iter &it, const bool *allow, Model &md) {
  for (int k = 0; k < NK; k++) { md.present[k] = false; md.ty[k] = 0; md.v[k] = 0; }
  for (int i = 0; i < NE; i++) { int k = it.e[i].k; if (!allow[k]) continue; md.present[k] = true; md.ty[k] = it.e[i].ty; md.v[k] = it.e[i].ty == 0 ? (it.e[i].v & 1) : it.e[i].v; }
}
static bool model_eq(const Model &a, const Model &b) {
  bool eq = true;
  for (int k = 0; k < NK; k++) eq = eq && a.present[k] == b.present[k] && (!a.present[k] || (a.ty[k] == b.ty[k] && a.v[k] == b.v[k]));
  return eq;
}
static bool holds(const m::MetricAttributes &a, const Model &md) {
  size_t n = 0; bool ok = true;
  for (int k = 0; k < NK; k++) {
    auto f = a.find(KEYS[k]);
    if (!md.present[k]) { ok = ok && f == a.end(); continue; }
    n++;
    if (f == a.end()) { ok = false; continue; }
    if (md.ty[k] == 0) ok = ok && nostd::holds_alternative<bool>(f->second) && nostd::get<bool>(f->second) == (bool)md.v[k];
    else ok = ok && nostd::holds_alternative<int64_t>(f->second) && nostd::get<int64_t>(f->second) == md.v[k];
  }
  return ok && a.size() == n;
}
ENTRY h_attr_identity() {
  Iter l1, l2;
#ifdef KEYS1
  any_list(l1, K1); any_list(l2, K2);
#else
  any_list(l1, nullptr); any_list(l2, nullptr);
#endif
  Filter f;
#if defined(ALLOW_SYM)
  bool use_filter = true;
#elif defined(ALLOW)
  static const bool AL[] = {ALLOW}; bool use_filter = USE_FILTER;
#else
  bool use_filter = nondet_bool();
#endif
  bool allow_all[NK] = {true, true, true};
  #if defined(ALLOW) && !defined(ALLOW_SYM)
  for (int k = 0; k < NK; k++) f.allow[k] = AL[k];
#else
  for (int k = 0; k < NK; k++) { bool a = nondet_bool(); f.allow[k] = a; }
#endif
  const bool *allow = use_filter ? f.allow : allow_all;
  m::MetricAttributes a(l1, use_filter ? &f : nullptr), b(l2, use_filter ? &f : nullptr);
  Model ma, mb; model_of(l1, allow, ma); model_of(l2, allow, mb);
  VASSERT(holds(a, ma) && holds(b, mb), "the filtered attribute set holds exactly the allowed keys, each with the value listed last");
  bool eq = model_eq(ma, mb);
  VASSERT((a == b) == eq, "two attribute lists name the same series exactly when they are equal as filtered key->value maps (order and duplicates irrelevant)");
  VASSERT(!eq || a.GetHash() == b.GetHash(), "equal attribute sets hash equally");
  VASSERT(!eq || m::AttributeHashGenerator()(a) == m::AttributeHashGenerator()(b), "equal attribute sets hash equally (AttributeHashGenerator)");
}

