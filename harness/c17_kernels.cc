// C17 / C06 aggregation kernels: Long/DoubleLastValueAggregation and Long/DoubleSumAggregation
// Aggregate / Merge / Diff / ToPoint on symbolic values and symbolic sample instants.
#include "verif.h"
#include <cmath>
#include "sdk/src/metrics/aggregation/lastvalue_aggregation.cc"
#include "sdk/src/metrics/aggregation/sum_aggregation.cc"
using namespace opentelemetry;
namespace m = opentelemetry::sdk::metrics;
static double any_finite() { double d = nondet_double(); VASSUME(d == d && d - d == 0.0); return d; }
static uint64_t any_ts() { uint64_t t = nondet_u64(); VASSUME(t < (1ULL << 62)); return t; }
static uint64_t ts_of(const m::LastValuePointData &p) { return (uint64_t)p.sample_ts_.time_since_epoch().count(); }

template <class T> static T any_val();
template <> int64_t any_val<int64_t>() { return (int64_t)nondet_u64(); }
template <> double any_val<double>() { return any_finite(); }

// ---------------------------------------------------------------- last value
template <class Agg, class T>
static inline __attribute__((always_inline)) void lv_aggregate(const char *l0, const char *l1, const char *l2) {
  Agg a;
  auto p0 = nostd::get<m::LastValuePointData>(a.ToPoint());
  __VERIFIER_assert(!p0.is_lastvalue_valid_, l0);
  T v1 = any_val<T>(); T v2 = any_val<T>();
  m::PointAttributes attrs;
  a.Aggregate(v1, attrs);
  auto p1 = nostd::get<m::LastValuePointData>(a.ToPoint());
  a.Aggregate(v2, attrs);
  auto p2 = nostd::get<m::LastValuePointData>(a.ToPoint());
  __VERIFIER_assert(p1.is_lastvalue_valid_ && nostd::get<T>(p1.value_) == v1 && p2.is_lastvalue_valid_ && nostd::get<T>(p2.value_) == v2, l1);
  __VERIFIER_assert(ts_of(p1) <= ts_of(p2), l2);
}
ENTRY h_lv_long_aggregate() {
  lv_aggregate<m::LongLastValueAggregation, int64_t>("long gauge: a fresh aggregation holds no valid value", "long gauge: the point is the most recently recorded value",
                                                      "long gauge: the sample instant follows the clock");
}
ENTRY h_lv_double_aggregate() {
  lv_aggregate<m::DoubleLastValueAggregation, double>("double gauge: a fresh aggregation holds no valid value", "double gauge: the point is the most recently recorded value",
                                                       "double gauge: the sample instant follows the clock");
}
// two samples with instants t_old <= t_new (ties are legal for a clock); every way the SDK combines them must keep the newer one:
//  older.Merge(newer)  (accumulating unreported deltas, TemporalMetricStorage),  fresh.Merge(x),  older.Diff(newer)
//  newer.Merge(older)  only for t_old < t_new (with equal instants the kernel cannot tell which is newer; see DESIGN C17)
template <class Agg, class T>
static inline __attribute__((always_inline)) void lv_merge(const char *lf, const char *lb, const char *ld, const char *lfresh) {
  m::LastValuePointData o, n;
  T vo = any_val<T>(); T vn = any_val<T>();
  uint64_t to = any_ts(); uint64_t tn = any_ts();
  VASSUME(to <= tn);
  o.value_ = vo; o.is_lastvalue_valid_ = true; o.sample_ts_ = opentelemetry::common::SystemTimestamp(std::chrono::nanoseconds((int64_t)to));
  n.value_ = vn; n.is_lastvalue_valid_ = true; n.sample_ts_ = opentelemetry::common::SystemTimestamp(std::chrono::nanoseconds((int64_t)tn));
  Agg older(o), newer(n), fresh;
  {
    std::unique_ptr<m::Aggregation> r = older.Merge(newer);
    auto p = nostd::get<m::LastValuePointData>(r->ToPoint());
    __VERIFIER_assert(p.is_lastvalue_valid_ && nostd::get<T>(p.value_) == vn && ts_of(p) == tn, lf);
  }
  if (to < tn) {
    std::unique_ptr<m::Aggregation> r = newer.Merge(older);
    auto p = nostd::get<m::LastValuePointData>(r->ToPoint());
    __VERIFIER_assert(p.is_lastvalue_valid_ && nostd::get<T>(p.value_) == vn && ts_of(p) == tn, lb);
  }
  {
    std::unique_ptr<m::Aggregation> r = older.Diff(newer);
    auto p = nostd::get<m::LastValuePointData>(r->ToPoint());
    __VERIFIER_assert(p.is_lastvalue_valid_ && nostd::get<T>(p.value_) == vn && ts_of(p) == tn, ld);
  }
  {
    std::unique_ptr<m::Aggregation> r = fresh.Merge(newer);
    auto p = nostd::get<m::LastValuePointData>(r->ToPoint());
    __VERIFIER_assert(p.is_lastvalue_valid_ && nostd::get<T>(p.value_) == vn && ts_of(p) == tn, lfresh);
  }
  // inputs are not modified
  auto po = nostd::get<m::LastValuePointData>(older.ToPoint()); auto pn = nostd::get<m::LastValuePointData>(newer.ToPoint());
  __VERIFIER_assert(nostd::get<T>(po.value_) == vo && ts_of(po) == to && nostd::get<T>(pn.value_) == vn && ts_of(pn) == tn, "gauge merge/diff leave their operands unchanged");
}
ENTRY h_lv_long_merge() {
  lv_merge<m::LongLastValueAggregation, int64_t>("long gauge: older.Merge(newer) reports the newer sample (equal instants included)", "long gauge: newer.Merge(older) reports the newer sample",
                                                  "long gauge: older.Diff(newer) reports the newer sample", "long gauge: merging into a fresh aggregation reports the sample");
}
ENTRY h_lv_double_merge() {
  lv_merge<m::DoubleLastValueAggregation, double>("double gauge: older.Merge(newer) reports the newer sample (equal instants included)", "double gauge: newer.Merge(older) reports the newer sample",
                                                   "double gauge: older.Diff(newer) reports the newer sample", "double gauge: merging into a fresh aggregation reports the sample");
}

// ---------------------------------------------------------------- sums
ENTRY h_sum_long() {
  bool mono = nondet_bool();
  m::LongSumAggregation a(mono);
  int64_t v1 = (int64_t)nondet_u64(); int64_t v2 = (int64_t)nondet_u64();
  VASSUME(v1 > -(1LL << 61) && v1 < (1LL << 61) && v2 > -(1LL << 61) && v2 < (1LL << 61));
  m::PointAttributes attrs;
  a.Aggregate(v1, attrs); a.Aggregate(v2, attrs);
  auto p = nostd::get<m::SumPointData>(a.ToPoint());
  int64_t want = 0;
  if (!mono || v1 >= 0) want += v1;
  if (!mono || v2 >= 0) want += v2;
  VASSERT(nostd::get<int64_t>(p.value_) == want, "long sum: the point is the exact sum of the accepted measurements (negative ones ignored only when monotonic)");
  VASSERT(p.is_monotonic_ == mono, "long sum: monotonicity flag is the instrument's");
}
ENTRY h_sum_double() {
  bool mono = nondet_bool();
  m::DoubleSumAggregation a(mono);
  double v1 = any_finite(); double v2 = any_finite();
  m::PointAttributes attrs;
  a.Aggregate(v1, attrs);
  double s1 = nostd::get<double>(nostd::get<m::SumPointData>(a.ToPoint()).value_);
  a.Aggregate(v2, attrs);
  auto p = nostd::get<m::SumPointData>(a.ToPoint());
  double w1 = (!mono || !(v1 < 0)) ? 0.0 + v1 : 0.0;
  VASSERT(s1 == w1, "double sum: first accepted measurement is added to zero");
  double w2 = (!mono || !(v2 < 0)) ? s1 + v2 : s1;
  VASSERT(nostd::get<double>(p.value_) == w2, "double sum: the point is the left-to-right floating sum of the accepted measurements");
  VASSERT(p.is_monotonic_ == mono, "double sum: monotonicity flag is the instrument's");
}
// Merge adds, Diff subtracts (next - this), neither touches its operands; integer case: cumulative reconstruction prev.Merge(prev.Diff(cur)) == cur
ENTRY h_sum_long_merge_diff() {
  bool mono = nondet_bool();
  m::SumPointData pa, pb;
  int64_t x = (int64_t)nondet_u64(); int64_t y = (int64_t)nondet_u64();
  VASSUME(x > -(1LL << 61) && x < (1LL << 61) && y > -(1LL << 61) && y < (1LL << 61));
  pa.value_ = x; pa.is_monotonic_ = mono; pb.value_ = y; pb.is_monotonic_ = mono;
  m::LongSumAggregation a(pa), b(pb);
  std::unique_ptr<m::Aggregation> mg = a.Merge(b);
  std::unique_ptr<m::Aggregation> df = a.Diff(b);
  auto pm = nostd::get<m::SumPointData>(mg->ToPoint()); auto pd = nostd::get<m::SumPointData>(df->ToPoint());
  VASSERT(nostd::get<int64_t>(pm.value_) == x + y && pm.is_monotonic_ == mono, "long sum: a.Merge(b) is a + b");
  VASSERT(nostd::get<int64_t>(pd.value_) == y - x && pd.is_monotonic_ == mono, "long sum: a.Diff(b) is b - a (what a delta reader is given between two observed totals)");
  std::unique_ptr<m::Aggregation> back = a.Merge(*df);
  VASSERT(nostd::get<int64_t>(nostd::get<m::SumPointData>(back->ToPoint()).value_) == y, "long sum: previous total merged with the difference gives the current total");
  auto qa = nostd::get<m::SumPointData>(a.ToPoint()); auto qb = nostd::get<m::SumPointData>(b.ToPoint());
  VASSERT(nostd::get<int64_t>(qa.value_) == x && nostd::get<int64_t>(qb.value_) == y, "long sum: Merge and Diff leave their operands unchanged");
}
ENTRY h_sum_double_merge_diff() {
  bool mono = nondet_bool();
  m::SumPointData pa, pb;
  double x = any_finite(); double y = any_finite();
  pa.value_ = x; pa.is_monotonic_ = mono; pb.value_ = y; pb.is_monotonic_ = mono;
  m::DoubleSumAggregation a(pa), b(pb);
  std::unique_ptr<m::Aggregation> mg = a.Merge(b);
  std::unique_ptr<m::Aggregation> df = a.Diff(b);
  auto pm = nostd::get<m::SumPointData>(mg->ToPoint()); auto pd = nostd::get<m::SumPointData>(df->ToPoint());
  double wm = y + x; double wd = y - x;
  VASSERT((nostd::get<double>(pm.value_) == wm || (wm != wm)) && pm.is_monotonic_ == mono, "double sum: a.Merge(b) is fl(a + b)");
  VASSERT((nostd::get<double>(pd.value_) == wd || (wd != wd)) && pd.is_monotonic_ == mono, "double sum: a.Diff(b) is fl(b - a)");
  auto qa = nostd::get<m::SumPointData>(a.ToPoint()); auto qb = nostd::get<m::SumPointData>(b.ToPoint());
  VASSERT(nostd::get<double>(qa.value_) == x && nostd::get<double>(qb.value_) == y, "double sum: Merge and Diff leave their operands unchanged");
}
