// C15 leaf kernels: Baggage::UrlEncode / UrlDecode (private statics, reached with -fno-access-control) on byte strings of an
// exact length in exactly sized heap buffers (any over-read is a bounds failure), against an independently written decoder.
#include "verif.h"
#include <cstdlib>
#include "opentelemetry/baggage/baggage.h"
using namespace opentelemetry;
using baggage::Baggage;
#ifndef LEN
#define LEN 3
#endif
static bool r_alnum(uint8_t c) { return (c >= '0' && c <= '9') || (c >= 'A' && c <= 'Z') || (c >= 'a' && c <= 'z'); }
static bool r_unreserved(uint8_t c) { return r_alnum(c) || c == '-' || c == '_' || c == '.' || c == '~'; }
static bool r_hex(uint8_t c) { return (c >= '0' && c <= '9') || (c >= 'A' && c <= 'F') || (c >= 'a' && c <= 'f'); }
static uint8_t r_hexval(uint8_t c) { return c <= '9' ? c - '0' : (c <= 'F' ? c - 'A' + 10 : c - 'a' + 10); }
// reference: returns false on malformed input; out/n = decoded bytes
static bool ref_decode(const uint8_t *s, size_t len, uint8_t *out, size_t &n) {
  n = 0;
  for (size_t i = 0; i < len; i++) {
    if (s[i] == '%') { if (len - i < 3 || !r_hex(s[i + 1]) || !r_hex(s[i + 2])) return false; out[n++] = (uint8_t)(r_hexval(s[i + 1]) * 16 + r_hexval(s[i + 2])); i += 2; }
    else if (s[i] == '+') out[n++] = ' ';
    else if (r_unreserved(s[i])) out[n++] = s[i];
    else return false;
  }
  return true;
}
ENTRY h_url_decode_any() {
  uint8_t save[LEN + 1]; uint8_t *buf = (uint8_t *)malloc(LEN ? LEN : 1);
  for (int i = 0; i < LEN; i++) { uint8_t c = nondet_u8(); buf[i] = c; save[i] = c; }
#ifdef ASCII_ONLY
  for (int i = 0; i < LEN; i++) VASSUME(save[i] < 0x80);
#endif
  bool err = false;
  std::string d = Baggage::UrlDecode(nostd::string_view((const char *)buf, LEN), err);
  uint8_t want[LEN + 1]; size_t wn = 0; bool ok = ref_decode(save, LEN, want, wn);
  VASSERT(err == !ok, "UrlDecode rejects exactly the malformed escapes / characters outside the token set");
  bool same = d.size() == (ok ? wn : 0);
  for (size_t i = 0; i < LEN; i++) if (ok && i < wn && i < d.size()) same = same && (uint8_t)d[i] == want[i];
  VASSERT(same, "UrlDecode yields the decoded bytes (percent escapes in either hex case, + as space), or nothing on error");
  free(buf);
}
ENTRY h_url_roundtrip() {
  uint8_t save[LEN + 1]; uint8_t *buf = (uint8_t *)malloc(LEN ? LEN : 1);
  for (int i = 0; i < LEN; i++) { uint8_t c = nondet_u8(); VASSUME(c >= ' ' && c <= '~'); buf[i] = c; save[i] = c; }
  std::string e = Baggage::UrlEncode(nostd::string_view((const char *)buf, LEN));
  free(buf);
  bool token = e.size() >= LEN && e.size() <= 3 * LEN;
  for (size_t i = 0; i < 3 * LEN; i++) if (i < e.size()) { uint8_t c = (uint8_t)e[i]; token = token && (r_unreserved(c) || c == '+' || c == '%'); }
  VASSERT(token, "UrlEncode writes only token characters, '+' and percent escapes");
  bool err = false;
  std::string d = Baggage::UrlDecode(nostd::string_view(e.data(), e.size()), err);
  bool same = !err && d.size() == LEN;
  for (size_t i = 0; i < LEN; i++) if (i < d.size()) same = same && (uint8_t)d[i] == save[i];
  VASSERT(same, "UrlDecode(UrlEncode(s)) == s for every printable s");
}
