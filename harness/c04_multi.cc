// C04: several processors. MultiSpanProcessor::MakeRecordable / OnStart / OnEnd with MultiRecordable over two or three mock
// processors: every setter reaches every child's own recordable with the same data, each processor is notified exactly once
// with its own recordable, nothing is shared or left behind.
#include "verif.h"
#include "opentelemetry/sdk/trace/multi_span_processor.h"
#include "opentelemetry/sdk/trace/multi_recordable.h"
#include "sdk/src/trace/exporter.cc"
using namespace opentelemetry;
namespace sdkt = opentelemetry::sdk::trace;
#ifndef NCHILD
#define NCHILD 2
#endif
struct Log { int n_name, n_status, n_attr, n_identity, n_kind, n_start, n_dur, n_flags; char name0; uint8_t status, flags, kind; int64_t attr; uint64_t start, dur; uint8_t sid0; };
static Log g_log[3]; static int g_make[3], g_onstart[3], g_onend[3]; static bool g_own = true; static int g_live;
struct Rec : sdkt::Recordable {
  int owner; explicit Rec(int o) : owner(o) { g_live++; }
  ~Rec() override { g_live--; }
  void SetIdentity(const trace::SpanContext &sc, trace::SpanId) noexcept override { g_log[owner].n_identity++; uint8_t b[8]; sc.span_id().CopyBytesTo(nostd::span<uint8_t, 8>(b)); g_log[owner].sid0 = b[0]; }
  void SetAttribute(nostd::string_view, const common::AttributeValue &v) noexcept override { g_log[owner].n_attr++; if (nostd::holds_alternative<int64_t>(v)) g_log[owner].attr = nostd::get<int64_t>(v); }
  void AddEvent(nostd::string_view, common::SystemTimestamp, const common::KeyValueIterable &) noexcept override {}
  void AddLink(const trace::SpanContext &, const common::KeyValueIterable &) noexcept override {}
  void SetStatus(trace::StatusCode c, nostd::string_view) noexcept override { g_log[owner].n_status++; g_log[owner].status = (uint8_t)c; }
  void SetName(nostd::string_view n) noexcept override { g_log[owner].n_name++; g_log[owner].name0 = n.size() ? n[0] : 0; }
  void SetTraceFlags(trace::TraceFlags f) noexcept override { g_log[owner].n_flags++; g_log[owner].flags = f.flags(); }
  void SetSpanKind(trace::SpanKind k) noexcept override { g_log[owner].n_kind++; g_log[owner].kind = (uint8_t)k; }
  void SetResource(const sdk::resource::Resource &) noexcept override {}
  void SetStartTime(common::SystemTimestamp t) noexcept override { g_log[owner].n_start++; g_log[owner].start = (uint64_t)t.time_since_epoch().count(); }
  void SetDuration(std::chrono::nanoseconds d) noexcept override { g_log[owner].n_dur++; g_log[owner].dur = (uint64_t)d.count(); }
  void SetInstrumentationScope(const sdk::instrumentationscope::InstrumentationScope &) noexcept override {}
};
struct Child : sdkt::SpanProcessor {
  int idx; explicit Child(int i) : idx(i) {}
  std::unique_ptr<sdkt::Recordable> MakeRecordable() noexcept override { g_make[idx]++; return std::unique_ptr<sdkt::Recordable>(new Rec(idx)); }
  void OnStart(sdkt::Recordable &r, const trace::SpanContext &) noexcept override { g_onstart[idx]++; if (static_cast<Rec &>(r).owner != idx) g_own = false; }
  void OnEnd(std::unique_ptr<sdkt::Recordable> &&r) noexcept override { g_onend[idx]++; if (!r || static_cast<Rec *>(r.get())->owner != idx) g_own = false; r.reset(); }
  bool ForceFlush(std::chrono::microseconds) noexcept override { return true; }
  bool Shutdown(std::chrono::microseconds) noexcept override { return true; }
};
ENTRY h_multi_fanout() {
  std::vector<std::unique_ptr<sdkt::SpanProcessor>> none;
  auto *mp = new sdkt::MultiSpanProcessor(std::move(none));      // never destroyed
  for (int i = 0; i < NCHILD; i++) mp->AddProcessor(std::unique_ptr<sdkt::SpanProcessor>(new Child(i)));
  std::unique_ptr<sdkt::Recordable> r = mp->MakeRecordable();
  bool once = true; for (int i = 0; i < NCHILD; i++) once = once && g_make[i] == 1;
  VASSERT(once && g_live == NCHILD, "several processors: each processor supplies exactly one recordable of its own");
  uint8_t sid[8], tid[16]; for (int i = 0; i < 8; i++) sid[i] = nondet_u8(); for (int i = 0; i < 16; i++) tid[i] = nondet_u8();
  uint8_t fl = nondet_u8(); uint8_t st = nondet_u8() % 3; uint8_t kind = nondet_u8() % 5; char nm = (char)nondet_u8(); int64_t av = (int64_t)nondet_u64(); uint64_t t0 = nondet_u64(); uint64_t du = nondet_u64();
  VASSUME(t0 < (1ULL << 62) && du < (1ULL << 62));
  trace::SpanContext sc(trace::TraceId(tid), trace::SpanId(sid), trace::TraceFlags(fl), false);
  r->SetIdentity(sc, trace::SpanId()); r->SetName(nostd::string_view(&nm, 1)); r->SetSpanKind((trace::SpanKind)kind); r->SetStartTime(common::SystemTimestamp(std::chrono::nanoseconds((int64_t)t0)));
  mp->OnStart(*r, sc);
  r->SetAttribute("k", common::AttributeValue(av)); r->SetStatus((trace::StatusCode)st, ""); r->SetTraceFlags(trace::TraceFlags(fl)); r->SetDuration(std::chrono::nanoseconds((int64_t)du));
  bool same = true;
  for (int i = 0; i < NCHILD; i++) {
    const Log &l = g_log[i];
    same = same && l.n_identity == 1 && l.n_name == 1 && l.n_kind == 1 && l.n_start == 1 && l.n_attr == 1 && l.n_status == 1 && l.n_flags == 1 && l.n_dur == 1;
    same = same && l.sid0 == sid[0] && l.name0 == nm && l.kind == kind && l.start == t0 && l.attr == av && l.status == st && l.flags == fl && l.dur == du;
  }
  VASSERT(same, "several processors: every recorded item reaches every processor's recordable exactly once with the same value");
  mp->OnEnd(std::move(r));
  once = true; for (int i = 0; i < NCHILD; i++) once = once && g_onstart[i] == 1 && g_onend[i] == 1;
  VASSERT(once && g_own, "several processors: each is notified of start and end exactly once, with its own recordable");
  VASSERT(g_live == 0 && !r, "several processors: every recordable was handed over; none is left behind or shared");
}
