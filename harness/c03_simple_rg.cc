// C03: the simple span / log record processors drive their exporter only while holding their spin lock, from any lock
// state and under arbitrary interference by other threads (thread-modular: models/rg_queue.c, role LOCKER). Together with
// the C11 spin-lock result (at most one holder) this gives: Export is never entered while another Export is running.
#include "verif.h"
#include "opentelemetry/sdk/trace/simple_processor.h"
#include "opentelemetry/sdk/logs/simple_log_record_processor.h"
#include "sdk/src/logs/simple_log_record_processor.cc"
#include "sdk/src/logs/exporter.cc"
#include "sdk/src/trace/exporter.cc"
using namespace opentelemetry;
namespace sdkt = opentelemetry::sdk::trace;
namespace sdkl = opentelemetry::sdk::logs;
extern "C" { extern uint32_t rg_role; extern uint8_t *rg_lock_flag; extern uint32_t rg_lock_holder_is_me, rg_lock_held_by_other, rg_lock_quiet_after, rg_lock_interferences; }
extern "C" void rg_consumer_take(uint64_t, uint64_t, uint64_t) {}   // queue role hook of the shared R/G environment: unused here
static int g_exports; static bool g_export_holding = true, g_one_record = true;
struct SRec : sdkt::Recordable {
  void SetIdentity(const trace::SpanContext &, trace::SpanId) noexcept override {}
  void SetAttribute(nostd::string_view, const common::AttributeValue &) noexcept override {}
  void AddEvent(nostd::string_view, common::SystemTimestamp, const common::KeyValueIterable &) noexcept override {}
  void AddLink(const trace::SpanContext &, const common::KeyValueIterable &) noexcept override {}
  void SetStatus(trace::StatusCode, nostd::string_view) noexcept override {}
  void SetName(nostd::string_view) noexcept override {}
  void SetSpanKind(trace::SpanKind) noexcept override {}
  void SetResource(const sdk::resource::Resource &) noexcept override {}
  void SetStartTime(common::SystemTimestamp) noexcept override {}
  void SetDuration(std::chrono::nanoseconds) noexcept override {}
  void SetInstrumentationScope(const sdk::instrumentationscope::InstrumentationScope &) noexcept override {}
};
struct LRec : sdkl::Recordable {
  void SetTimestamp(common::SystemTimestamp) noexcept override {}
  void SetObservedTimestamp(common::SystemTimestamp) noexcept override {}
  void SetSeverity(opentelemetry::logs::Severity) noexcept override {}
  void SetBody(const common::AttributeValue &) noexcept override {}
  void SetAttribute(nostd::string_view, const common::AttributeValue &) noexcept override {}
  void SetEventId(int64_t, nostd::string_view) noexcept override {}
  void SetTraceId(const trace::TraceId &) noexcept override {}
  void SetSpanId(const trace::SpanId &) noexcept override {}
  void SetTraceFlags(const trace::TraceFlags &) noexcept override {}
  void SetResource(const sdk::resource::Resource &) noexcept override {}
  void SetInstrumentationScope(const sdk::instrumentationscope::InstrumentationScope &) noexcept override {}
};
static void at_export(size_t n) {
  g_exports++;
  if (!(rg_lock_holder_is_me && !rg_lock_held_by_other && *rg_lock_flag)) g_export_holding = false;
  if (n != 1) g_one_record = false;
}
struct SExp : sdkt::SpanExporter {
  std::unique_ptr<sdkt::Recordable> MakeRecordable() noexcept override { return std::unique_ptr<sdkt::Recordable>(new SRec); }
  sdk::common::ExportResult Export(const nostd::span<std::unique_ptr<sdkt::Recordable>> &spans) noexcept override { at_export(spans.size()); return nondet_bool() ? sdk::common::ExportResult::kSuccess : sdk::common::ExportResult::kFailure; }
  bool ForceFlush(std::chrono::microseconds) noexcept override { return true; }
  bool Shutdown(std::chrono::microseconds) noexcept override { return true; }
};
struct LExp : sdkl::LogRecordExporter {
  std::unique_ptr<sdkl::Recordable> MakeRecordable() noexcept override { return std::unique_ptr<sdkl::Recordable>(new LRec); }
  sdk::common::ExportResult Export(const nostd::span<std::unique_ptr<sdkl::Recordable>> &recs) noexcept override { at_export(recs.size()); return nondet_bool() ? sdk::common::ExportResult::kSuccess : sdk::common::ExportResult::kFailure; }
  bool ForceFlush(std::chrono::microseconds) noexcept override { return true; }
  bool Shutdown(std::chrono::microseconds) noexcept override { return true; }
};
static void any_lock_state(uint8_t *flag) {
  rg_lock_flag = flag;
  bool f = nondet_bool(); *rg_lock_flag = f; rg_lock_held_by_other = f; rg_lock_holder_is_me = 0;
  rg_lock_interferences = 0;
  rg_lock_quiet_after = 2;      // bounded fairness, as in the C11 lock() query: after two interferences the other holder has released
}
ENTRY h_simple_span_rg() {
  auto *sp = new sdkt::SimpleSpanProcessor(std::unique_ptr<sdkt::SpanExporter>(new SExp));
  std::unique_ptr<sdkt::Recordable> r(new SRec);
  any_lock_state((uint8_t *)&sp->lock_.flag_);
  rg_role = 3;
  sp->OnEnd(std::move(r));
  rg_role = 0;
  // a second call by the same thread, again from an arbitrary lock state (what happened in the first call must not let it skip the lock)
  std::unique_ptr<sdkt::Recordable> r2(new SRec);
  any_lock_state((uint8_t *)&sp->lock_.flag_);
  rg_role = 3;
  sp->OnEnd(std::move(r2));
  rg_role = 0;
  VASSERT(g_exports == 2 && g_one_record, "simple span processor: OnEnd exports the span, one record per call");
  VASSERT(g_export_holding, "simple span processor: Export runs only while this thread holds the processor's lock exclusively");
  VASSERT(!rg_lock_holder_is_me, "simple span processor: the lock is released when OnEnd returns");
}
ENTRY h_simple_log_rg() {
  auto *lp = new sdkl::SimpleLogRecordProcessor(std::unique_ptr<sdkl::LogRecordExporter>(new LExp));
  std::unique_ptr<sdkl::Recordable> r(new LRec);
  any_lock_state((uint8_t *)&lp->lock_.flag_);
  rg_role = 3;
  lp->OnEmit(std::move(r));
  rg_role = 0;
  std::unique_ptr<sdkl::Recordable> r2(new LRec);
  any_lock_state((uint8_t *)&lp->lock_.flag_);
  rg_role = 3;
  lp->OnEmit(std::move(r2));
  rg_role = 0;
  VASSERT(g_exports == 2 && g_one_record, "simple log processor: OnEmit exports the record, one record per call");
  VASSERT(g_export_holding, "simple log processor: Export runs only while this thread holds the processor's lock exclusively");
  VASSERT(!rg_lock_holder_is_me, "simple log processor: the lock is released when OnEmit returns");
}
