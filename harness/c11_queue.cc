// C11: CircularBuffer::Add / Consume, AtomicUniquePtr and SpinLockMutex, thread-modularly (rely/guarantee).
// The real code runs once per query; models/rg_queue.c injects arbitrary interference allowed by the rely
// before every atomic operation and asserts the role's guarantee at each of its atomic writes.
#include "verif.h"
#include "opentelemetry/common/spin_lock_mutex.h"
#include "opentelemetry/sdk/common/circular_buffer.h"
using namespace opentelemetry::sdk::common;
#ifndef MAXSZ
#define MAXSZ 2
#endif
struct Tok { uint64_t v; };
struct rg_state { uint64_t head, tail, slots[5]; };
extern "C" {
extern uint32_t rg_role; extern uint64_t *rg_head, *rg_tail, *rg_slots; extern uint64_t rg_cap, rg_max, rg_me;
extern uint32_t rg_published, rg_pending, rg_ndeleted, rg_iter; extern uint64_t rg_head_read, rg_tail_entry; extern uint64_t *rg_owner_ptr;
extern uint64_t rg_cons_lo, rg_cons_hi; extern uint8_t *rg_lock_flag; extern uint32_t rg_lock_holder_is_me, rg_lock_held_by_other, rg_lock_quiet_after;
int rg_invariant(void); int rg_bounded(void); int rg_inv(const rg_state *); int rg_rely_producer(const rg_state *, const rg_state *, uint64_t, int, uint64_t);
int rg_rely_consumer(const rg_state *, const rg_state *, uint64_t, uint64_t); int rg_action(const rg_state *, rg_state *, uint32_t, uint64_t, uint64_t, uint64_t);
void rg_consumer_take(uint64_t slot, uint64_t old, uint64_t v);
}
static uint64_t g_got[4]; static uint32_t g_ngot;
extern "C" void rg_consumer_take(uint64_t, uint64_t old, uint64_t) { if (g_ngot < 4) g_got[g_ngot] = old; g_ngot++; }
static CircularBuffer<Tok> *any_buffer() {
  auto *b = new CircularBuffer<Tok>(MAXSZ);     // never destroyed: the slots hold token ids, not heap objects
  rg_head = (uint64_t *)&b->head_; rg_tail = (uint64_t *)&b->tail_; rg_slots = (uint64_t *)b->data_.get(); rg_cap = b->capacity_; rg_max = MAXSZ;
  *rg_head = nondet_u64(); *rg_tail = nondet_u64();
  for (uint64_t i = 0; i < MAXSZ + 1; i++) rg_slots[i] = nondet_u64();
  VASSUME(rg_invariant() && rg_bounded());
  return b;
}
// ---- producer role: one Add from an arbitrary invariant state under arbitrary interference
ENTRY h_producer_add() {
  auto *b = any_buffer();
  uint64_t me = nondet_u64(); VASSUME(me != 0);
  for (uint64_t i = 0; i < MAXSZ + 1; i++) VASSUME(rg_slots[i] != me);
  rg_me = me;
  std::unique_ptr<Tok> p((Tok *)me);
  rg_owner_ptr = (uint64_t *)&p;
  rg_role = 1;
  bool r = b->Add(p);
  rg_role = 0;
  if (r) {
    VASSERT(rg_published == 1 && !rg_pending, "Add true: the element was published exactly once");
    VASSERT(p.get() == nullptr, "Add true: the caller no longer holds the element");
    VASSERT(rg_ndeleted == 0, "Add true: the element was not deleted");
  } else {
    VASSERT(p.get() == (Tok *)me, "Add false: the element stays with the caller");
    VASSERT(rg_published == 0 && !rg_pending && rg_ndeleted == 0, "Add false: nothing of the element is in the buffer and nothing was deleted");
    bool nowhere = true; for (uint64_t i = 0; i < MAXSZ + 1; i++) nowhere = nowhere && rg_slots[i] != me;
    VASSERT(nowhere, "Add false: no slot holds the element");
    VASSERT(rg_head_read >= rg_tail_entry && rg_head_read - rg_tail_entry >= MAXSZ, "Add false only when (elements added so far) - (consumed before it started) fill the capacity");
  }
  VASSERT(rg_invariant(), "Add leaves the queue invariant intact");
  p.release();
}
// ---- consumer role
ENTRY h_consumer_consume() {
  auto *b = any_buffer();
  uint64_t t0 = *rg_tail, h0 = *rg_head;
  uint64_t n = nondet_u64(); VASSUME(n <= h0 - t0);
  uint64_t exp[4];
  for (uint64_t k = 0; k < MAXSZ; k++) exp[k] = rg_slots[(t0 + k) % (MAXSZ + 1)];
  rg_cons_lo = rg_cons_hi = t0; g_ngot = 0;
  rg_role = 2;
  b->Consume(n, [&](CircularBufferRange<AtomicUniquePtr<Tok>> range) noexcept {
    range.ForEach([&](AtomicUniquePtr<Tok> &ptr) noexcept { std::unique_ptr<Tok> s; ptr.Swap(s); s.release(); return true; });
  });
  rg_role = 0;
  VASSERT(g_ngot == n, "Consume(n) takes exactly n elements");
  bool order = true; for (uint64_t k = 0; k < MAXSZ; k++) if (k < n) order = order && g_got[k] == exp[k];
  VASSERT(order, "Consume takes the n oldest published elements in order");
  VASSERT(*rg_tail == t0 + n && rg_cons_lo == rg_cons_hi, "tail advanced by n and every claimed slot was emptied");
  VASSERT(rg_ndeleted == 0, "Consume deletes nothing itself");
  VASSERT(rg_invariant(), "Consume leaves the queue invariant intact");
  VASSERT(b->size() <= MAXSZ, "number of queued elements never exceeds the capacity");
}
// ---- rely/guarantee consistency (pure predicate logic over the same C predicates)
ENTRY h_rg_consistency() {
  rg_cap = MAXSZ + 1; rg_max = MAXSZ;
  rg_state o, n;
  o.head = nondet_u64(); o.tail = nondet_u64(); for (int i = 0; i < 5; i++) o.slots[i] = nondet_u64();
  VASSUME(rg_inv(&o) && o.head < 192);
  uint32_t a = nondet_u8() % 4; uint64_t tok = nondet_u64(), idx = nondet_u64(), cnt = nondet_u64();
  VASSUME(rg_action(&o, &n, a, tok, idx, cnt));
  VASSERT(rg_inv(&n), "I is preserved by every guarantee step");
  // observer 1: a producer T holding token me (me distinct from the actor's token)
  uint64_t me = nondet_u64(); bool pending = nondet_bool(); uint64_t ps = nondet_u64();
  VASSUME(me != 0 && me != tok && ps < rg_cap);
  bool me_in = false; for (uint64_t i = 0; i < rg_cap; i++) me_in = me_in || o.slots[i] == me;
  VASSUME(pending ? (o.slots[ps] == me) : !me_in);
  bool ps_pub = false; for (uint64_t k = 0; k < 5; k++) { uint64_t x = o.tail + k; if (x < o.head && x % rg_cap == ps) ps_pub = true; }
  VASSUME(!(pending && ps_pub));                        // T's pending slot is unpublished
  if (a == 2) VASSUME(o.slots[idx] != me);               // the actor empties its OWN slot (tokens are unique; me is T's)
  if (a == 1) VASSUME(o.slots[o.head % rg_cap] != me);   // the actor publishes only the slot holding ITS element (its guarantee)
  VASSERT(rg_rely_producer(&o, &n, me, pending, ps), "steps of other producers and of the consumer satisfy the producer rely");
  // observer 2: the consumer with claimed window [lo,hi), hi == tail, all window slots still non-null
  if (a != 3) {
    uint64_t lo = nondet_u64(); uint64_t hi = o.tail;
    VASSUME(lo <= hi && hi - lo <= rg_max && (o.head - lo) <= rg_max);
    bool in_win = false;
    for (uint64_t k = 0; k < 5; k++) { uint64_t x = lo + k; if (x < hi) { VASSUME(o.slots[x % rg_cap] != 0); if (x % rg_cap == idx) in_win = true; } }
    if (a == 2) VASSUME(!in_win);                         // a producer's pending token never sits in a claimed (continuously non-null) slot
    if (a == 1) { bool hw = false; for (uint64_t k = 0; k < 5; k++) { uint64_t x = lo + k; if (x < hi && x % rg_cap == o.head % rg_cap) hw = true; } VASSUME(!hw); }  // it publishes only ITS element, never a claimed one
    VASSUME(!(lo < hi) || o.head <= lo + rg_cap);
    VASSERT(rg_rely_consumer(&o, &n, lo, hi), "producer steps satisfy the consumer rely");
  }
}
// ---- spin lock
ENTRY h_spinlock() {
  opentelemetry::common::SpinLockMutex m;
  rg_lock_flag = (uint8_t *)&m.flag_;
  bool f = nondet_bool(); *rg_lock_flag = f; rg_lock_held_by_other = f; rg_lock_holder_is_me = 0;
  uint8_t op = nondet_u8() % 2;
  rg_role = 3;
  if (op == 0) {
    bool r = m.try_lock();
    VASSERT(r == (rg_lock_holder_is_me != 0), "try_lock returns true exactly when it acquired the lock");
    if (r) {
      VASSERT(!rg_lock_held_by_other, "try_lock succeeds only on a free lock (at most one holder)");
      m.unlock();
      VASSERT(!rg_lock_holder_is_me, "unlock releases the lock");
    }
  } else {
    rg_lock_quiet_after = 2;     // bounded fairness: after two interferences the holder has unlocked and nobody else contends
    m.lock();
    VASSERT(rg_lock_holder_is_me && !rg_lock_held_by_other, "lock() returns holding the lock exclusively");
    m.unlock();
    VASSERT(!rg_lock_holder_is_me, "unlock releases the lock");
  }
  rg_role = 0;
}
