// C18: environment readers (sdk/src/common/env_variables.cc, file-static GetTimeoutFromString reached by
// including the real .cc). getenv is a harness-owned buffer; errno pre-state is symbolic.
#include "verif.h"
#include <cerrno>
#include "sdk/src/common/env_variables.cc"
using namespace opentelemetry;
namespace sc = opentelemetry::sdk::common;
extern "C" char *verif_env_value;
#ifndef LEN
#define LEN 8
#endif
typedef unsigned __int128 u128;
static bool is_sp(uint8_t c) { return c == ' ' || (c >= 9 && c <= 13); }
static bool is_dg(uint8_t c) { return c >= '0' && c <= '9'; }
// symbolic NUL-terminated string of length exactly LEN in an exactly sized heap object (one query per length:
// a symbolic allocation size makes the solver blow up)
static char *any_cstring(size_t &n) {
  n = LEN;
  char *s = (char *)__builtin_malloc(LEN + 1);
  for (size_t i = 0; i < LEN; i++) { s[i] = (char)nondet_u8(); VASSUME(s[i] != 0); }
  s[LEN] = 0;
  return s;
}
// reference grammar: ws* digits+ unit?  -> exact count of system_clock ticks (ns), or rejection.
// 64-bit arithmetic with saturation (no wide multipliers): v saturates at 2^63, which no unit accepts.
static const uint64_t kSat = 9223372036854775808ULL;
static bool ref_duration(const char *s, size_t n, uint64_t &ticks) {
  size_t i = 0; while (i < n && is_sp((uint8_t)s[i])) i++;
  size_t d0 = i; uint64_t v = 0;
  while (i < n && is_dg((uint8_t)s[i])) {
    uint64_t d = (uint8_t)(s[i] - '0');
    if (v > (kSat - d) / 10) v = kSat; else v = v * 10 + d;
    i++;
  }
  if (i == d0 || v == 0) return false;
  size_t r = n - i; const char *u = s + i; uint64_t lim;
  // lim = INT64_MAX / factor (a value that does not fit the duration type must be rejected)
  if (r == 0) { lim = 9223372036ULL; if (v > lim) return false; ticks = v * 1000000000ULL; return true; }
  if (r == 2 && u[0] == 'n' && u[1] == 's') { if (v > 9223372036854775807ULL) return false; ticks = v; return true; }
  if (r == 2 && u[0] == 'u' && u[1] == 's') { if (v > 9223372036854775ULL) return false; ticks = v * 1000ULL; return true; }
  if (r == 2 && u[0] == 'm' && u[1] == 's') { if (v > 9223372036854ULL) return false; ticks = v * 1000000ULL; return true; }
  if (r == 1 && u[0] == 's') { if (v > 9223372036ULL) return false; ticks = v * 1000000000ULL; return true; }
  if (r == 1 && u[0] == 'm') { if (v > 153722867ULL) return false; ticks = v * 60000000000ULL; return true; }
  if (r == 1 && u[0] == 'h') { if (v > 2562047ULL) return false; ticks = v * 3600000000000ULL; return true; }
  return false;
}
ENTRY h_timeout_from_string() {
  size_t n; char *s = any_cstring(n);
  std::chrono::system_clock::duration v{};
  bool ok = sc::GetTimeoutFromString(s, v);
  uint64_t want = 0; bool ref = ref_duration(s, n, want);
  VASSERT(ok == ref, "duration accepted exactly for ws* digits+ unit? with a non-zero value that fits");
  if (ok && ref) VASSERT((uint64_t)v.count() == want && v.count() > 0, "accepted duration has the exact value");
  __builtin_free(s);
}
// exact value for a fixed shape: NSP spaces, NDIG symbolic digits, unit literal UNIT (each shape = one query)
#ifndef NDIG
#define NDIG 3
#define NSP 1
#define UNIT "ms"
#define FACTOR 1000000LL
#endif
ENTRY h_timeout_exact() {
  const char unit[] = UNIT;
  char *s = (char *)__builtin_malloc(NSP + NDIG + sizeof(unit));
  for (int i = 0; i < NSP; i++) s[i] = ' ';
  int64_t v = 0; bool big = false;   // big: the digits denote more than INT64_MAX
  for (int i = 0; i < NDIG; i++) {
    uint8_t d = nondet_u8(); VASSUME(d <= 9); s[NSP + i] = char('0' + d);
    if (big || v > 922337203685477580LL || (v == 922337203685477580LL && d > 7)) big = true; else v = v * 10 + d;
  }
  for (size_t i = 0; i < sizeof(unit); i++) s[NSP + NDIG + i] = unit[i];
  std::chrono::system_clock::duration out{};
  bool ok = sc::GetTimeoutFromString(s, out);
  bool fits = !big && v <= INT64_MAX / FACTOR;
  VASSERT(ok == ((big || v != 0) && fits), "fixed shape: accepted iff value non-zero and representable");
  if (ok && fits) VASSERT(out.count() == v * FACTOR, "fixed shape: accepted duration is digits x unit exactly");
  __builtin_free(s);
}
ENTRY h_duration_env() {
  size_t n; char *s = any_cstring(n);
  bool unset = nondet_bool();
  verif_env_value = unset ? nullptr : s;
  errno = (int)nondet_u32();
  std::chrono::system_clock::duration v{std::chrono::seconds{7}};
  bool ok = sc::GetDurationEnvironmentVariable("X", v);
  uint64_t want = 0; bool ref = !unset && ref_duration(s, n, want);
  VASSERT(ok == ref, "duration variable accepted exactly for well-formed values");
  if (ok && ref) VASSERT((uint64_t)v.count() == want, "duration variable has the exact value");
  if (unset || n == 0) VASSERT(!ok && v.count() == 0, "unset/empty duration variable gives false and zero");
  __builtin_free(s);
}
// reference for unsigned: ws* '+'? digits+  (strtoull's non-negative decimal syntax), value <= UINT32_MAX
static bool ref_uint(const char *s, size_t n, uint64_t &val) {
  size_t i = 0; while (i < n && is_sp((uint8_t)s[i])) i++;
  if (i < n && s[i] == '+') i++;
  size_t d0 = i; uint64_t v = 0;
  while (i < n && is_dg((uint8_t)s[i])) { uint64_t d = (uint8_t)(s[i] - '0'); if (v > 0xffffffffULL) v = 0x100000000ULL; else v = v * 10 + d; i++; }
  if (i == d0 || i != n || v > 0xffffffffULL) return false;
  val = (uint64_t)v; return true;
}
ENTRY h_uint_env() {
  size_t n; char *s = any_cstring(n);
  bool unset = nondet_bool();
  verif_env_value = unset ? nullptr : s;
  errno = (int)nondet_u32();    // whatever an earlier library call left behind
  uint32_t v = 77;
  bool ok = sc::GetUintEnvironmentVariable("X", v);
  uint64_t want = 0; bool ref = !unset && ref_uint(s, n, want);
  VASSERT(ok == ref, "uint variable accepted exactly for a non-negative decimal number within 32 bits");
  if (ok) VASSERT(ref && v == want, "accepted uint variable has the exact value");
  if (!ok) VASSERT(v == 0, "rejected/unset uint variable gives the default 0");
  __builtin_free(s);
}
static bool ieq(const char *s, size_t n, const char *w) {
  size_t i = 0; for (; w[i]; i++) { if (i >= n) return false; char c = s[i]; if (c >= 'A' && c <= 'Z') c = char(c + 32); if (c != w[i]) return false; }
  return i == n;
}
ENTRY h_bool_env() {
  size_t n; char *s = any_cstring(n);
  bool unset = nondet_bool();
  verif_env_value = unset ? nullptr : s;
  bool v = nondet_bool();
  bool ok = sc::GetBoolEnvironmentVariable("X", v);
  bool is_true = !unset && ieq(s, n, "true");
  VASSERT(v == is_true, "bool variable is true exactly for case-insensitive \"true\", false otherwise");
  if (unset || n == 0) VASSERT(!ok, "unset/empty bool variable reports not set");
  __builtin_free(s);
}
ENTRY h_float_env() {
  size_t n; char *s = any_cstring(n);
  bool unset = nondet_bool();
  verif_env_value = unset ? nullptr : s;
  errno = 0;
  float v = 3.0f;
  bool ok = sc::GetFloatEnvironmentVariable("X", v);
  if (unset || n == 0) VASSERT(!ok && v == 0.0f, "unset/empty float variable gives false and 0");
  if (!ok) VASSERT(v == 0.0f, "rejected float variable gives the default 0");
  __builtin_free(s);
}
