// C01 / C02 / C03: BatchSpanProcessor (real batch_span_processor.cc) or, with -DLOGS, BatchLogRecordProcessor (real
// batch_log_record_processor.cc) with a mock exporter. The worker thread is never started; what it would do is run by the
// harness (directly, or from the hook that models/thread_cv.c calls where the calling thread blocks). While the worker is
// inside the exporter (Export / ForceFlush) other threads may act: the mock exporter produces a record and issues a flush
// ticket there, as a concurrent producer / ForceFlush caller would (symbolic choice). Queue/atomics run sequentially here; their
// concurrent correctness is C11.
#include "verif.h"
#ifdef LOGS
#include "sdk/src/logs/batch_log_record_processor.cc"
#include "sdk/src/logs/exporter.cc"
#else
#include "sdk/src/trace/batch_span_processor.cc"
#include "sdk/src/trace/exporter.cc"
#endif
using namespace opentelemetry;
#ifndef QMAX
#define QMAX 4
#endif
#ifndef BMAX
#define BMAX 2
#endif
#ifndef KITEMS
#define KITEMS QMAX      // records produced before the operation under test (concrete per query: keeps sizes concrete)
#endif
#define NLOG 16
#ifdef LOGS
namespace sdkx = opentelemetry::sdk::logs;
typedef sdkx::BatchLogRecordProcessor PROC; typedef sdkx::BatchLogRecordProcessorOptions OPTS; typedef sdkx::LogRecordExporter EXPBASE;
struct TokRec : sdkx::Recordable {
  uint32_t id; explicit TokRec(uint32_t i) : id(i) {}
  void SetTimestamp(common::SystemTimestamp) noexcept override {}
  void SetObservedTimestamp(common::SystemTimestamp) noexcept override {}
  void SetSeverity(opentelemetry::logs::Severity) noexcept override {}
  void SetBody(const common::AttributeValue &) noexcept override {}
  void SetAttribute(nostd::string_view, const common::AttributeValue &) noexcept override {}
  void SetEventId(int64_t, nostd::string_view) noexcept override {}
  void SetTraceId(const trace::TraceId &) noexcept override {}
  void SetSpanId(const trace::SpanId &) noexcept override {}
  void SetTraceFlags(const trace::TraceFlags &) noexcept override {}
  void SetResource(const sdk::resource::Resource &) noexcept override {}
  void SetInstrumentationScope(const sdk::instrumentationscope::InstrumentationScope &) noexcept override {}
};
#define PRODUCE(p, r) (p)->OnEmit(r)
#else
namespace sdkx = opentelemetry::sdk::trace;
typedef sdkx::BatchSpanProcessor PROC; typedef sdkx::BatchSpanProcessorOptions OPTS; typedef sdkx::SpanExporter EXPBASE;
struct TokRec : sdkx::Recordable {
  uint32_t id; explicit TokRec(uint32_t i) : id(i) {}
  void SetIdentity(const trace::SpanContext &, trace::SpanId) noexcept override {}
  void SetAttribute(nostd::string_view, const common::AttributeValue &) noexcept override {}
  void AddEvent(nostd::string_view, common::SystemTimestamp, const common::KeyValueIterable &) noexcept override {}
  void AddLink(const trace::SpanContext &, const common::KeyValueIterable &) noexcept override {}
  void SetStatus(trace::StatusCode, nostd::string_view) noexcept override {}
  void SetName(nostd::string_view) noexcept override {}
  void SetSpanKind(trace::SpanKind) noexcept override {}
  void SetResource(const sdk::resource::Resource &) noexcept override {}
  void SetStartTime(common::SystemTimestamp) noexcept override {}
  void SetDuration(std::chrono::nanoseconds) noexcept override {}
  void SetInstrumentationScope(const sdk::instrumentationscope::InstrumentationScope &) noexcept override {}
};
#define PRODUCE(p, r) (p)->OnEnd(r)
#endif
extern "C" { extern uint32_t verif_mutex_lock_calls; uint32_t verif_mutex_was_locked(void *m); }
// ---- ghost state
static PROC *g_proc;
static uint32_t g_exported[NLOG]; static int g_nexported; static int g_batches;
static int g_flush_calls, g_shutdown_calls; static int g_flush_after_exported;   // #exported when the exporter's ForceFlush was last called
static bool g_size_ok = true, g_no_export_after_shutdown = true, g_export_overlap = false; static int g_in_exporter;
static int g_produced;                         // records accepted by the queue so far (ids are 1, 2, 3, ... in production order)
static uint64_t g_ticket_issued_at[4]; static uint64_t g_first_ticket; static int g_ntickets;   // records produced when ticket (g_first_ticket + i) was issued
static bool g_ack_ok = true;                   // every acknowledged ticket covered what was produced before it was issued, and the exporter's ForceFlush ran after that
static int produce_one(PROC *p) {              // one producer call; returns 1 if the record was accepted
  size_t before = p->buffer_.size();
  PRODUCE(p, std::unique_ptr<sdkx::Recordable>(new TokRec((uint32_t)(g_produced + 1))));
  if (p->buffer_.size() == before + 1) { g_produced++; return 1; }
  return 0;
}
static void issue_ticket(PROC *p) {             // what the beginning of a concurrent ForceFlush call does
  uint64_t t = p->synchronization_data_->force_flush_pending_sequence.fetch_add(1) + 1;
  if (g_ntickets == 0) g_first_ticket = t;
  if (g_ntickets < 4) g_ticket_issued_at[g_ntickets] = (uint64_t)g_produced;
  g_ntickets++;
}
static void check_acks(PROC *p) {               // called whenever the notified sequence may have moved
  uint64_t n = p->synchronization_data_->force_flush_notified_sequence.load();
  for (int i = 0; i < 4; i++) if (i < g_ntickets && g_first_ticket + i <= n) {
    if ((uint64_t)g_nexported < g_ticket_issued_at[i] || g_flush_calls == 0 || (uint64_t)g_flush_after_exported < g_ticket_issued_at[i]) g_ack_ok = false;
  }
}
// INTERFERE (concrete per query; a symbolic choice here makes every later queue index symbolic - measured: no verdict in 200 s):
//  0 none; 1 a producer call during the first Export; 2 producer call + flush ticket during the first Export;
//  3 producer call + flush ticket during the exporter's ForceFlush; 4 flush ticket during the first Export; 5 = 2 and 3 together
static int g_export_calls_seen, g_flush_calls_seen;
extern "C" { extern uint32_t verif_thread_id; }
static bool g_second_shutdown_returned, g_second_shutdown_ok; static int g_expect_total;
//  6 another thread may call Shutdown while the first Shutdown is draining (inside the first Export of the drain)
static void others_act(PROC *p, bool in_force_flush) {   // a concurrent producer / ForceFlush caller, while the worker is inside the exporter
  if (!in_force_flush) {
    g_export_calls_seen++;
    if (g_export_calls_seen == 1) {
      if (INTERFERE == 1 || INTERFERE == 2 || INTERFERE == 5) produce_one(p);
      if (INTERFERE == 2 || INTERFERE == 4 || INTERFERE == 5) issue_ticket(p);
      if (INTERFERE == 6 && nondet_bool()) {      // a second thread calls Shutdown now; if it has to wait for the first caller this branch ends in the mutex model
        verif_thread_id = 1;
        p->Shutdown(std::chrono::microseconds(1000));
        verif_thread_id = 0;
        g_second_shutdown_returned = true;
        g_second_shutdown_ok = g_nexported == g_expect_total && g_shutdown_calls == 1;
      }
    }
  } else {
    g_flush_calls_seen++;
    if (g_flush_calls_seen == 1 && (INTERFERE == 3 || INTERFERE == 5)) { produce_one(p); issue_ticket(p); }
  }
}
struct Exp : EXPBASE {
  std::unique_ptr<sdkx::Recordable> MakeRecordable() noexcept override { return std::unique_ptr<sdkx::Recordable>(new TokRec(0)); }
  sdk::common::ExportResult Export(const nostd::span<std::unique_ptr<sdkx::Recordable>> &recs) noexcept override {
    if (g_in_exporter) g_export_overlap = true;
    g_in_exporter++;
    if (g_shutdown_calls) g_no_export_after_shutdown = false;
    g_batches++;
    if (recs.size() < 1 || recs.size() > BMAX) g_size_ok = false;
    for (size_t i = 0; i < recs.size(); i++) { if (g_nexported < NLOG) g_exported[g_nexported] = static_cast<TokRec *>(recs[i].get())->id; g_nexported++; recs[i].reset(); }
    others_act(g_proc, false);
    g_in_exporter--;
    return nondet_bool() ? sdk::common::ExportResult::kSuccess : sdk::common::ExportResult::kFailure;
  }
  bool ForceFlush(std::chrono::microseconds) noexcept override { g_flush_calls++; g_flush_after_exported = g_nexported; others_act(g_proc, true); return nondet_bool(); }
  bool Shutdown(std::chrono::microseconds) noexcept override { g_shutdown_calls++; return nondet_bool(); }
};
static int g_worker_mode;   // what the simulated worker does when the caller blocks
extern "C" void verif_worker_step(uint32_t why) {
  if (!g_proc) return;
  if (why == 2) { g_proc->DrainQueue(); check_acks(g_proc); return; }               // join: the worker sees is_shutdown, drains and exits
  if (g_worker_mode == 1) { g_proc->Export(); check_acks(g_proc); }                  // a worker export cycle happens while the caller waits
}
static PROC *make_proc() {
  OPTS o; o.max_queue_size = QMAX; o.max_export_batch_size = BMAX; o.schedule_delay_millis = std::chrono::milliseconds(5);
  auto *p = new PROC(std::unique_ptr<EXPBASE>(new Exp), o);   // never destroyed
  g_proc = p;
  return p;
}
static int produce(PROC *p, int k) {   // k <= QMAX+1 producer calls; returns how many were accepted
  int acc = 0;
  for (int i = 0; i < QMAX + 1; i++) if (i < k) acc += produce_one(p);
  return acc;
}
static bool fifo_exact(int count) {   // exporter log equals 1, 2, ..., count: every record exactly once, in production order
  if (g_nexported != count) return false;
  for (int i = 0; i < NLOG; i++) if (i < count && g_exported[i] != (uint32_t)(1 + i)) return false;
  return true;
}
static bool fifo_prefix() {           // what has been exported so far is 1, 2, ... without gaps or repeats
  for (int i = 0; i < NLOG; i++) if (i < g_nexported && g_exported[i] != (uint32_t)(1 + i)) return false;
  return g_nexported <= g_produced;
}
// ---- Export() from a state in which ForceFlush may have been used earlier (ticket history class per query)
//      0 = ForceFlush never used, 1 = used earlier and completed, 2 = a flush is outstanding
#ifndef TICKETS
#define TICKETS 1
#endif
#ifndef INTERFERE
#define INTERFERE 0
#endif
ENTRY h_export_cycle() {
  auto *p = make_proc();
  if (TICKETS >= 1) { p->synchronization_data_->force_flush_pending_sequence.store(7); p->synchronization_data_->force_flush_notified_sequence.store(7); }
  const int k = KITEMS;
  int acc = produce(p, k);
  VASSERT(acc == k, "nothing is dropped while the queue has room");
  if (TICKETS == 2) issue_ticket(p);                       // a ForceFlush caller took a ticket after these records were produced
  p->Export();
  check_acks(p);
  VASSERT(g_size_ok, "every batch is non-empty and holds at most max_export_batch_size records");
  VASSERT(!g_export_overlap, "Export is not entered while a previous Export is running");
  VASSERT(fifo_prefix() && g_nexported >= k, "an export cycle delivers every record that was queued when it started exactly once, in production order");
  VASSERT(g_nexported + (int)p->buffer_.size() == g_produced, "every accepted record is either exported or still queued");
  VASSERT(g_ack_ok, "a flush ticket is acknowledged only after everything produced before it was exported and the exporter's ForceFlush ran");
  if (TICKETS == 2) VASSERT(p->synchronization_data_->force_flush_notified_sequence.load() >= g_first_ticket, "an outstanding flush ticket is acknowledged by the export cycle");
  else if (INTERFERE == 0) VASSERT(g_flush_calls == 0, "no outstanding flush: the exporter's ForceFlush is not called");
}
// ---- queue full: drop exactly the overflow; producers take no lock the worker holds across Export
ENTRY h_drop_only_when_full() {
  auto *p = make_proc();
  uint32_t locks0 = verif_mutex_lock_calls;
  int acc = produce(p, QMAX + 1);
  bool took_cv_m = verif_mutex_was_locked((void *)&p->synchronization_data_->cv_m) != 0;
  VASSERT(!took_cv_m && verif_mutex_lock_calls == locks0, "producers never wait for the exporter: OnEnd/OnEmit takes no mutex (the worker holds cv_m across Export)");
  VASSERT(g_batches == 0 && g_flush_calls == 0, "producers never call the exporter");
  VASSERT(acc == QMAX && p->buffer_.size() == QMAX, "a record is dropped only when the queue already holds max_queue_size records");
  p->Export();
  VASSERT(fifo_exact(QMAX) && g_size_ok, "the accepted records are exported exactly once in order, in bounded batches");
}
// ---- ForceFlush: the caller blocks; WMODE 1: the worker runs an export cycle while it waits, 0: the worker never runs
//      TOCLASS 0: timeout 0 (= unlimited), 1: 1000 us, 2: microseconds::max
#ifndef WMODE
#define WMODE 1
#endif
#ifndef TOCLASS
#define TOCLASS 1
#endif
extern "C" { extern uint64_t verif_clock_min_step; }
ENTRY h_force_flush() {
  auto *p = make_proc();
  const int k = KITEMS;
  produce(p, k);
  g_worker_mode = WMODE;
  if (WMODE == 0) verif_clock_min_step = 2000000;    // bounded progress: the steady clock advances at least 2 ms per reading, so a 1000 us budget runs out
  const int64_t to = TOCLASS == 0 ? 0 : (TOCLASS == 1 ? 1000 : std::chrono::microseconds::max().count());
  bool r = p->ForceFlush(std::chrono::microseconds(to));
  check_acks(p);
  if (r) {
    VASSERT(fifo_exact(k), "ForceFlush true: everything ended before the call was exported exactly once");
    VASSERT(g_flush_calls >= 1 && g_flush_after_exported == k, "ForceFlush true: the exporter's ForceFlush ran after those records");
  }
  VASSERT(g_size_ok && !g_export_overlap, "batches stay within bounds during ForceFlush");
  VASSERT(WMODE == 1 || !r, "ForceFlush cannot report success if the worker never ran");
  VASSERT(WMODE == 0 || r, "ForceFlush reports success once the worker has exported and acknowledged its ticket");
}
// ---- Shutdown: drains, shuts the exporter down once, later calls are inert
ENTRY h_shutdown() {
  auto *p = make_proc();
  const int k = KITEMS;
  produce(p, k);
  g_expect_total = k;
  if (TICKETS == 2) issue_ticket(p);          // a ForceFlush caller is waiting when Shutdown begins: the drain must release it
  bool b = nondet_bool();
  p->Shutdown(std::chrono::microseconds(b ? 0 : 1000));
  VASSERT(fifo_exact(k) && g_size_ok, "Shutdown exports everything produced before it, once, in bounded batches");
  VASSERT(g_shutdown_calls == 1 && g_no_export_after_shutdown, "Shutdown shuts the exporter down exactly once, after the last Export");
  check_acks(p);
  VASSERT(g_ack_ok && (TICKETS != 2 || p->synchronization_data_->force_flush_notified_sequence.load() >= g_first_ticket), "Shutdown: a flush ticket that was outstanding is acknowledged by the drain, after the records were exported");
  VASSERT(!g_second_shutdown_returned || g_second_shutdown_ok, "a Shutdown call returns only after everything produced before it was exported and the exporter was shut down (also when another Shutdown is in progress)");
  int batches = g_batches, flushes = g_flush_calls;
  PRODUCE(p, std::unique_ptr<sdkx::Recordable>(new TokRec(99)));
  bool ff = p->ForceFlush(std::chrono::microseconds(1000));
  p->Shutdown(std::chrono::microseconds(0));
  VASSERT(!ff, "ForceFlush after Shutdown reports false");
  VASSERT(g_batches == batches && g_flush_calls == flushes && g_shutdown_calls == 1 && g_nexported == k, "after Shutdown no exporter call is made by OnEnd / ForceFlush / Shutdown");
}
