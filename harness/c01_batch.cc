// C01 / C02 / C03: BatchSpanProcessor (real batch_span_processor.cc) with a mock exporter. The worker thread is
// never started; what it would do is run by the harness (directly, or from the hook that models/thread_cv.c calls
// where the calling thread blocks).  Queue/atomics run sequentially here; their concurrent correctness is C11.
#include "verif.h"
#include "sdk/src/trace/batch_span_processor.cc"
#include "sdk/src/trace/exporter.cc"
using namespace opentelemetry;
namespace sdkt = opentelemetry::sdk::trace;
#ifndef QMAX
#define QMAX 4
#endif
#ifndef BMAX
#define BMAX 2
#endif
#ifndef KITEMS
#define KITEMS QMAX      // records produced before the operation under test (concrete per query: keeps sizes concrete)
#endif
struct TokRec : sdkt::Recordable {
  uint32_t id; explicit TokRec(uint32_t i) : id(i) {}
  void SetIdentity(const trace::SpanContext &, trace::SpanId) noexcept override {}
  void SetAttribute(nostd::string_view, const common::AttributeValue &) noexcept override {}
  void AddEvent(nostd::string_view, common::SystemTimestamp, const common::KeyValueIterable &) noexcept override {}
  void AddLink(const trace::SpanContext &, const common::KeyValueIterable &) noexcept override {}
  void SetStatus(trace::StatusCode, nostd::string_view) noexcept override {}
  void SetName(nostd::string_view) noexcept override {}
  void SetSpanKind(trace::SpanKind) noexcept override {}
  void SetResource(const sdk::resource::Resource &) noexcept override {}
  void SetStartTime(common::SystemTimestamp) noexcept override {}
  void SetDuration(std::chrono::nanoseconds) noexcept override {}
  void SetInstrumentationScope(const sdk::instrumentationscope::InstrumentationScope &) noexcept override {}
};
// exporter log
static uint32_t g_exported[12]; static int g_nexported; static int g_batches; static uint8_t g_batch_size[8];
static int g_flush_calls, g_shutdown_calls; static int g_flush_after_exported;   // #exported when ForceFlush was last called
static bool g_size_ok = true;
struct Exp : sdkt::SpanExporter {
  std::unique_ptr<sdkt::Recordable> MakeRecordable() noexcept override { return std::unique_ptr<sdkt::Recordable>(new TokRec(0)); }
  sdk::common::ExportResult Export(const nostd::span<std::unique_ptr<sdkt::Recordable>> &spans) noexcept override {
    if (g_batches < 8) g_batch_size[g_batches] = (uint8_t)spans.size();
    g_batches++;
    if (spans.size() < 1 || spans.size() > BMAX) g_size_ok = false;
    for (size_t i = 0; i < spans.size(); i++) { if (g_nexported < 12) g_exported[g_nexported] = static_cast<TokRec *>(spans[i].get())->id; g_nexported++; spans[i].reset(); }
    return nondet_bool() ? sdk::common::ExportResult::kSuccess : sdk::common::ExportResult::kFailure;
  }
  bool ForceFlush(std::chrono::microseconds) noexcept override { g_flush_calls++; g_flush_after_exported = g_nexported; return nondet_bool(); }
  bool Shutdown(std::chrono::microseconds) noexcept override { g_shutdown_calls++; return nondet_bool(); }
};
static sdkt::BatchSpanProcessor *g_proc; static int g_worker_mode;   // what the simulated worker does when the caller blocks
extern "C" void verif_worker_step(uint32_t why) {
  if (!g_proc) return;
  if (why == 2) { g_proc->DrainQueue(); return; }               // join: the worker sees is_shutdown, drains and exits
  if (g_worker_mode == 1) g_proc->Export();                      // a worker export cycle happens while the caller waits
}
static sdkt::BatchSpanProcessor *make_proc() {
  sdkt::BatchSpanProcessorOptions o; o.max_queue_size = QMAX; o.max_export_batch_size = BMAX; o.schedule_delay_millis = std::chrono::milliseconds(5);
  auto *p = new sdkt::BatchSpanProcessor(std::unique_ptr<sdkt::SpanExporter>(new Exp), o);   // never destroyed
  g_proc = p;
  return p;
}
static int produce(sdkt::BatchSpanProcessor *p, int first_id, int k) {   // k <= QMAX+1 items; returns how many were accepted (queue not full)
  int acc = 0;
  for (int i = 0; i < QMAX + 1; i++) if (i < k) { size_t before = p->buffer_.size(); p->OnEnd(std::unique_ptr<sdkt::Recordable>(new TokRec(first_id + i))); if (p->buffer_.size() == before + 1) acc++; }
  return acc;
}
static bool fifo_exact(int from_id, int count) {   // exporter log equals from_id, from_id+1, ... exactly once each
  if (g_nexported != count) return false;
  for (int i = 0; i < 12; i++) if (i < count && g_exported[i] != (uint32_t)(from_id + i)) return false;
  return true;
}
// ---- Export() from a state in which ForceFlush may have been used earlier (tickets arbitrary)
ENTRY h_export_cycle() {
  auto *p = make_proc();
  // ticket history class (concrete representative per query; the code only compares pending != 0 and pending > notified):
  // 0 = ForceFlush never used, 1 = used earlier and completed, 2 = a flush is outstanding
#ifndef TICKETS
#define TICKETS 1
#endif
  const uint64_t pending = TICKETS == 0 ? 0 : (TICKETS == 1 ? 7 : 9), notified = TICKETS == 0 ? 0 : 7;
  p->synchronization_data_->force_flush_pending_sequence.store(pending);
  p->synchronization_data_->force_flush_notified_sequence.store(notified);
  const int k = KITEMS;
  int acc = produce(p, 1, k);
  VASSERT(acc == k, "nothing is dropped while the queue has room");
  p->Export();
  VASSERT(g_size_ok, "every batch is non-empty and holds at most max_export_batch_size records");
  VASSERT(fifo_exact(1, k) && p->buffer_.empty(), "an export cycle delivers every queued record exactly once, in production order");
  if (pending > notified) {
    VASSERT(g_flush_calls >= 1 && g_flush_after_exported == k, "outstanding flush: exporter ForceFlush called after the last record was exported");
    VASSERT(p->synchronization_data_->force_flush_notified_sequence.load() == pending, "outstanding flush ticket is published as completed only at the end");
  } else {
    VASSERT(g_flush_calls == 0 && p->synchronization_data_->force_flush_notified_sequence.load() == notified, "no outstanding flush: no exporter ForceFlush, tickets untouched");
  }
}
// ---- queue full: drop exactly the overflow
ENTRY h_drop_only_when_full() {
  auto *p = make_proc();
  int acc = produce(p, 1, QMAX + 1);
  VASSERT(acc == QMAX && p->buffer_.size() == QMAX, "a record is dropped only when the queue already holds max_queue_size records");
  p->Export();
  VASSERT(fifo_exact(1, QMAX) && g_size_ok, "the accepted records are exported exactly once in order, in bounded batches");
}
// ---- ForceFlush: the caller blocks; the worker may or may not run an export cycle while it waits
ENTRY h_force_flush() {
  auto *p = make_proc();
  const int k = KITEMS;
  produce(p, 1, k);
  g_worker_mode = nondet_bool() ? 1 : 0;
  uint64_t to = nondet_bool() ? 0 : (nondet_bool() ? 1000 : (uint64_t)std::chrono::microseconds::max().count());
  bool r = p->ForceFlush(std::chrono::microseconds((int64_t)to));
  if (r) {
    VASSERT(fifo_exact(1, k), "ForceFlush true: everything ended before the call was exported exactly once");
    VASSERT(g_flush_calls >= 1 && g_flush_after_exported == k, "ForceFlush true: the exporter's ForceFlush ran after those records");
  }
  VASSERT(g_size_ok, "batches stay within bounds during ForceFlush");
  VASSERT(g_worker_mode == 1 || !r, "ForceFlush cannot report success if the worker never ran");
}
// ---- Shutdown: drains, shuts the exporter down once, later calls are inert
ENTRY h_shutdown() {
  auto *p = make_proc();
  const int k = KITEMS;
  produce(p, 1, k);
  p->Shutdown(std::chrono::microseconds(nondet_bool() ? 0 : 1000));
  VASSERT(fifo_exact(1, k) && g_size_ok, "Shutdown exports everything produced before it, once, in bounded batches");
  VASSERT(g_shutdown_calls == 1, "Shutdown shuts the exporter down exactly once");
  int batches = g_batches, flushes = g_flush_calls;
  p->OnEnd(std::unique_ptr<sdkt::Recordable>(new TokRec(99)));
  bool ff = p->ForceFlush(std::chrono::microseconds(1000));
  p->Shutdown(std::chrono::microseconds(0));
  VASSERT(!ff, "ForceFlush after Shutdown reports false");
  VASSERT(g_batches == batches && g_flush_calls == flushes && g_shutdown_calls == 1 && g_nexported == k, "after Shutdown no exporter call is made by OnEnd / ForceFlush / Shutdown");
}
// ---- probes (development): growth of the program size step by step
ENTRY h_p0() { auto *p = make_proc(); VASSERT(p->buffer_.size() == 0, "p0"); }
ENTRY h_p1() { auto *p = make_proc(); p->OnEnd(std::unique_ptr<sdkt::Recordable>(new TokRec(1))); VASSERT(p->buffer_.size() == 1, "p1"); }
ENTRY h_p2() { auto *p = make_proc(); p->OnEnd(std::unique_ptr<sdkt::Recordable>(new TokRec(1))); p->OnEnd(std::unique_ptr<sdkt::Recordable>(new TokRec(2))); VASSERT(p->buffer_.size() == 2, "p2"); }
ENTRY h_p3() { auto *p = make_proc(); p->OnEnd(std::unique_ptr<sdkt::Recordable>(new TokRec(1))); p->Export(); VASSERT(p->buffer_.size() == 0 && g_nexported == 1, "p3"); }
