// C09 leaf kernels: TraceFlags hex rendering, IsValidHex, HexToBinary (real headers).
#include "verif.h"
#include "opentelemetry/trace/propagation/detail/hex.h"
#include "opentelemetry/trace/trace_flags.h"
using namespace opentelemetry;
ENTRY h_flags_lower_hex() {
  uint8_t f = nondet_u8(); char out[2];
  trace::TraceFlags tf(f);
  tf.ToLowerBase16(nostd::span<char,2>(out,2));
  for (int i = 0; i < 2; i++) {
    uint8_t nib = i == 0 ? (f >> 4) : (f & 15);
    char want = nib < 10 ? char('0' + nib) : char('a' + nib - 10);
    VASSERT(out[i] == want, "flags byte rendered as two lowercase hex digits");
  }
}
ENTRY h_hex_roundtrip() {
  char s[4]; for (int i=0;i<4;i++) s[i]=nondet_u8();
  uint8_t b[2];
  bool allhex = true;
  for (int i=0;i<4;i++){ uint8_t c=s[i]; if(!((c>='0'&&c<='9')||(c>='a'&&c<='f')||(c>='A'&&c<='F'))) allhex=false; }
  bool v = trace::propagation::detail::IsValidHex(nostd::string_view(s,4));
  VASSERT(v == allhex, "IsValidHex accepts exactly [0-9a-fA-F]*");
  if (v) {
    VASSERT(trace::propagation::detail::HexToBinary(nostd::string_view(s,4), b, 2), "HexToBinary succeeds on valid hex");
    for (int i=0;i<4;i++) { uint8_t c=s[i]; int d = c<='9'? c-'0' : (c|0x20)-'a'+10; uint8_t nib = (i%2==0)? b[i/2]>>4 : b[i/2]&15; VASSERT(nib==d, "HexToBinary nibble equals digit value"); }
  }
}
