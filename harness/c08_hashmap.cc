// C08: AttributesHashMap with a cardinality limit (real attributes_hashmap.h + filtered_ordered_attribute_map.cc + sum aggregation)
#include "verif.h"
#include "opentelemetry/sdk/metrics/state/filtered_ordered_attribute_map.h"
#include "opentelemetry/sdk/metrics/state/attributes_hashmap.h"
#include "opentelemetry/sdk/metrics/aggregation/sum_aggregation.h"
#include "sdk/src/metrics/state/filtered_ordered_attribute_map.cc"
#include "sdk/src/metrics/aggregation/sum_aggregation.cc"
using namespace opentelemetry;
namespace m = opentelemetry::sdk::metrics;

// ---- AttributesHashMap with a cardinality limit: series count stays within the limit, the excess is folded into the single
// otel.metrics.overflow=true series, and the total over all series equals everything recorded (values symbolic, sets concrete)
#ifndef LIMIT
#define LIMIT 3
#endif
struct OneAttr : common::KeyValueIterable {
  const char *k; int64_t v;
  bool ForEachKeyValue(nostd::function_ref<bool(nostd::string_view, common::AttributeValue)> cb) const noexcept override { return cb(nostd::string_view(k), common::AttributeValue(v)); }
  size_t size() const noexcept override { return 1; }
};
ENTRY h_hashmap_limit() {
  auto *hm = new m::AttributesHashMap(LIMIT);
  // five measurements on four distinct attribute sets: A={a:1} B={a:2} C={bb:1} D={c:1} A again
#ifndef NM
#define NM 5
#endif
  // NM = 5: A={a:1} B={a:2} C={bb:1} D={c:1} A ; NM = 3 (limit 2): A={a:1} B={a:2} A
  static const char *K[5] = {"a", "a", NM == 3 ? "a" : "bb", "c", "a"}; static const int64_t AV[5] = {1, 2, 1, 1, 1};
  int64_t v[5] = {0, 0, 0, 0, 0}; int64_t total = 0;
  for (int i = 0; i < NM; i++) { uint64_t x = nondet_u64(); VASSUME(x < (1ULL << 40)); v[i] = (int64_t)x; total += v[i]; }
  for (int i = 0; i < NM; i++) {
    OneAttr at; at.k = K[i]; at.v = AV[i];
    m::Aggregation *ag = hm->GetOrSetDefault(at, nullptr, []() { return std::unique_ptr<m::Aggregation>(new m::LongSumAggregation(true)); });
    ag->Aggregate(v[i], {});
  }
  VASSERT(hm->Size() <= LIMIT, "cardinality limit: the number of series stays within the limit");
  int64_t sum = 0; int64_t overflow = -1; int n = 0; int64_t a1 = -1;
  hm->GetAllEnteries([&](const m::MetricAttributes &attrs, m::Aggregation &ag) {
    int64_t x = nostd::get<int64_t>(nostd::get<m::SumPointData>(ag.ToPoint()).value_);
    sum += x; n++;
    auto f = attrs.find(m::kAttributesLimitOverflowKey);
    if (f != attrs.end() && nostd::holds_alternative<bool>(f->second) && nostd::get<bool>(f->second)) overflow = x;
    auto g = attrs.find("a");
    if (g != attrs.end() && nostd::holds_alternative<int64_t>(g->second) && nostd::get<int64_t>(g->second) == 1) a1 = x;
    return true;
  });
  VASSERT(sum == total, "cardinality limit: the total over all reported series equals everything recorded");
  VASSERT(n == (int)hm->Size() && overflow == (NM == 3 ? v[1] : v[2] + v[3]), "cardinality limit: the excess attribute sets are folded into the single otel.metrics.overflow=true series");
  VASSERT(a1 == (NM == 3 ? v[0] + v[2] : v[0] + v[4]), "cardinality limit: a set that already has a series keeps contributing to it");
}
