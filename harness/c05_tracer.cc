// C05 / C04: real Tracer::StartSpan and sdk::trace::Span (tracer.cc, span.cc) with mock sampler, id generator,
// processor and recordable. TracerContext/Tracer state is constructed directly (members placed individually;
// the resource and scope are opaque storage that the mocks never read).
#include "verif.h"
#include <mutex>
#include "sdk/src/trace/span.cc"
#include "sdk/src/trace/tracer.cc"
#include "sdk/src/trace/tracer_config.cc"
#include "sdk/src/trace/tracer_context.cc"
using namespace opentelemetry;
namespace sdkt = opentelemetry::sdk::trace;

// ---- call log of the mock recordable / processor
enum Ev { E_NAME = 1, E_IDENTITY, E_FLAGS, E_ATTR, E_EVENT, E_LINK, E_STATUS, E_KIND, E_RESOURCE, E_START, E_DURATION, E_SCOPE };
static uint8_t g_log[24]; static int g_nlog; static int64_t g_attr_val[4]; static int g_nattr; static uint8_t g_status; static char g_name0;
static trace::SpanContext *g_identity; static uint8_t g_parent_id[8]; static uint8_t g_rec_flags;
static int g_make, g_onstart, g_onend, g_rec_live;
static void logev(uint8_t e) { if (g_nlog < 24) g_log[g_nlog] = e; g_nlog++; }
struct Rec : sdkt::Recordable {
  Rec() { g_rec_live++; }
  ~Rec() override { g_rec_live--; }
  void SetIdentity(const trace::SpanContext &sc, trace::SpanId parent) noexcept override { logev(E_IDENTITY); g_identity = new trace::SpanContext(sc); parent.CopyBytesTo(nostd::span<uint8_t, 8>(g_parent_id)); }
  void SetAttribute(nostd::string_view, const common::AttributeValue &v) noexcept override { logev(E_ATTR); if (g_nattr < 4 && nostd::holds_alternative<int64_t>(v)) g_attr_val[g_nattr] = nostd::get<int64_t>(v); g_nattr++; }
  void AddEvent(nostd::string_view, common::SystemTimestamp, const common::KeyValueIterable &) noexcept override { logev(E_EVENT); }
  void AddLink(const trace::SpanContext &, const common::KeyValueIterable &) noexcept override { logev(E_LINK); }
  void SetStatus(trace::StatusCode c, nostd::string_view) noexcept override { logev(E_STATUS); g_status = (uint8_t)c; }
  void SetName(nostd::string_view n) noexcept override { logev(E_NAME); g_name0 = n.size() ? n[0] : 0; }
  void SetTraceFlags(trace::TraceFlags f) noexcept override { logev(E_FLAGS); g_rec_flags = f.flags(); }
  void SetSpanKind(trace::SpanKind) noexcept override { logev(E_KIND); }
  void SetResource(const sdk::resource::Resource &) noexcept override { logev(E_RESOURCE); }
  void SetStartTime(common::SystemTimestamp) noexcept override { logev(E_START); }
  void SetDuration(std::chrono::nanoseconds) noexcept override { logev(E_DURATION); }
  void SetInstrumentationScope(const sdk::instrumentationscope::InstrumentationScope &) noexcept override { logev(E_SCOPE); }
};
struct Proc : sdkt::SpanProcessor {
  std::unique_ptr<sdkt::Recordable> MakeRecordable() noexcept override { g_make++; return std::unique_ptr<sdkt::Recordable>(new Rec); }
  void OnStart(sdkt::Recordable &, const trace::SpanContext &) noexcept override { g_onstart++; }
  void OnEnd(std::unique_ptr<sdkt::Recordable> &&r) noexcept override { g_onend++; r.reset(); }
  bool ForceFlush(std::chrono::microseconds) noexcept override { return true; }
  bool Shutdown(std::chrono::microseconds) noexcept override { return true; }
};
static uint8_t g_decision; static nostd::shared_ptr<trace::TraceState> *g_sampler_ts; static int g_sampler_calls;
static trace::SpanContext *g_sampler_parent; static uint8_t g_sampler_tid[16];
struct Samp : sdkt::Sampler {
  sdkt::SamplingResult ShouldSample(const trace::SpanContext &parent, trace::TraceId tid, nostd::string_view, trace::SpanKind,
                                    const common::KeyValueIterable &, const trace::SpanContextKeyValueIterable &) noexcept override {
    g_sampler_calls++; g_sampler_parent = new trace::SpanContext(parent); tid.CopyBytesTo(nostd::span<uint8_t, 16>(g_sampler_tid));
    return {sdkt::Decision(g_decision), nullptr, g_sampler_ts ? *g_sampler_ts : nostd::shared_ptr<trace::TraceState>(nullptr)};
  }
  nostd::string_view GetDescription() const noexcept override { return "m"; }
};
static uint8_t g_gen_tid[16], g_gen_sid[8]; static int g_gen_tid_calls, g_gen_sid_calls;
struct Gen : sdkt::IdGenerator {
  explicit Gen(bool random) : sdkt::IdGenerator(random) {}
  trace::SpanId GenerateSpanId() noexcept override { g_gen_sid_calls++; return trace::SpanId(g_gen_sid); }
  trace::TraceId GenerateTraceId() noexcept override { g_gen_tid_calls++; return trace::TraceId(g_gen_tid); }
};
struct NoAttrs : common::KeyValueIterable {
  bool ForEachKeyValue(nostd::function_ref<bool(nostd::string_view, common::AttributeValue)>) const noexcept override { return true; }
  size_t size() const noexcept override { return 0; }
};
struct NoLinks : trace::SpanContextKeyValueIterable {
  bool ForEachKeyValue(nostd::function_ref<bool(trace::SpanContext, const common::KeyValueIterable &)>) const noexcept override { return true; }
  size_t size() const noexcept override { return 0; }
};
static std::shared_ptr<sdkt::Tracer> make_tracer(bool random_ids) {
  auto *ctx = (sdkt::TracerContext *)__builtin_calloc(1, sizeof(sdkt::TracerContext));
  new (&ctx->sampler_) std::unique_ptr<sdkt::Sampler>(new Samp);
  new (&ctx->id_generator_) std::unique_ptr<sdkt::IdGenerator>(new Gen(random_ids));
  new (&ctx->processor_) std::unique_ptr<sdkt::SpanProcessor>(new Proc);
  auto *t = (sdkt::Tracer *)__builtin_calloc(1, sizeof(sdkt::Tracer));
  auto *scope = (sdk::instrumentationscope::InstrumentationScope *)__builtin_calloc(1, sizeof(sdk::instrumentationscope::InstrumentationScope));
  new (&t->instrumentation_scope_) std::shared_ptr<sdk::instrumentationscope::InstrumentationScope>(scope, [](sdk::instrumentationscope::InstrumentationScope *) {});
  new (&t->context_) std::shared_ptr<sdkt::TracerContext>(ctx, [](sdkt::TracerContext *) {});
  new (&t->tracer_config_) sdkt::TracerConfig(sdkt::TracerConfig::Enabled());
  return std::shared_ptr<sdkt::Tracer>(t, [](sdkt::Tracer *) {});     // sets up enable_shared_from_this
}
static trace::SpanContext any_context(bool valid) {
  uint8_t tid[16], sid[8];
  for (int i = 0; i < 16; i++) tid[i] = nondet_u8();
  for (int i = 0; i < 8; i++) sid[i] = nondet_u8();
  uint8_t fl = nondet_u8(); bool remote = nondet_bool();
  // the parent carries its OWN trace state (not the shared default object), so "the parent's trace state" is observable
  trace::SpanContext sc(trace::TraceId(tid), trace::SpanId(sid), trace::TraceFlags(fl), remote, trace::TraceState::FromHeader("p=1"));
  VASSUME(sc.IsValid() == valid);
  return sc;
}
static void any_generator_ids() {
  bool tz = true, sz = true;
  for (int i = 0; i < 16; i++) { g_gen_tid[i] = nondet_u8(); tz = tz && g_gen_tid[i] == 0; }
  for (int i = 0; i < 8; i++) { g_gen_sid[i] = nondet_u8(); sz = sz && g_gen_sid[i] == 0; }
  VASSUME(!tz && !sz);             // IdGenerator contract: ids are non-zero
}
// PARENT_MODE: 0 none (no active span), 1 explicit valid SpanContext, 2 explicit Context holding a valid span,
//              3 explicit Context without span marked root while an active span exists, 4 active span only,
//              5 explicit invalid SpanContext while an active span exists,
//              6 explicit Context that holds no span and is NOT marked root while an active span exists
#ifndef PARENT_MODE
#define PARENT_MODE 1
#endif
ENTRY h_start_span() {
  bool random_ids = nondet_bool();
  auto tracer = make_tracer(random_ids);
  any_generator_ids();
  g_decision = nondet_u8() % 3;
  bool sampler_ts = nondet_bool();
  nostd::shared_ptr<trace::TraceState> sts = trace::TraceState::FromHeader("s=1");
  g_sampler_ts = sampler_ts ? &sts : nullptr;
  trace::StartSpanOptions opts;
  bool has_parent = false; trace::SpanContext parent = trace::SpanContext::GetInvalid();
  nostd::unique_ptr<context::Token> tok;
#if PARENT_MODE == 1
  parent = any_context(true); has_parent = true; opts.parent = parent;
#elif PARENT_MODE == 2
  parent = any_context(true); has_parent = true;
  { context::Context c; opts.parent = trace::SetSpan(c, nostd::shared_ptr<trace::Span>(new trace::DefaultSpan(parent))); }
#elif PARENT_MODE == 3
  { trace::SpanContext active = any_context(true);
    tok = context::RuntimeContext::Attach(context::RuntimeContext::GetCurrent().SetValue(trace::kSpanKey, nostd::shared_ptr<trace::Span>(new trace::DefaultSpan(active))));
    context::Context c; opts.parent = c.SetValue(trace::kIsRootSpanKey, true); }
#elif PARENT_MODE == 4
  parent = any_context(true); has_parent = true;
  tok = context::RuntimeContext::Attach(context::RuntimeContext::GetCurrent().SetValue(trace::kSpanKey, nostd::shared_ptr<trace::Span>(new trace::DefaultSpan(parent))));
#elif PARENT_MODE == 5
  parent = any_context(true); has_parent = true;
  tok = context::RuntimeContext::Attach(context::RuntimeContext::GetCurrent().SetValue(trace::kSpanKey, nostd::shared_ptr<trace::Span>(new trace::DefaultSpan(parent))));
  opts.parent = any_context(false);
#elif PARENT_MODE == 6
  parent = any_context(true); has_parent = true;
  tok = context::RuntimeContext::Attach(context::RuntimeContext::GetCurrent().SetValue(trace::kSpanKey, nostd::shared_ptr<trace::Span>(new trace::DefaultSpan(parent))));
  { context::Context c; bool with_key = nondet_bool(); opts.parent = with_key ? c.SetValue(trace::kIsRootSpanKey, false) : c; }
#endif
  NoAttrs a; NoLinks l;
  nostd::shared_ptr<trace::Span> span = tracer->StartSpan("n", a, l, opts);
  trace::SpanContext sc = span->GetContext();
  bool sampled = g_decision == (uint8_t)sdkt::Decision::RECORD_AND_SAMPLE, recording = g_decision != (uint8_t)sdkt::Decision::DROP;
  VASSERT(sc.IsValid(), "started span exposes a valid context (also when dropped)");
  VASSERT(sc.span_id() == trace::SpanId(g_gen_sid) && g_gen_sid_calls == 1, "span id is the freshly generated one");
  if (has_parent) {
    VASSERT(sc.trace_id() == parent.trace_id() && g_gen_tid_calls == 0, "valid parent: trace id inherited");
    VASSERT(g_sampler_calls == 1 && g_sampler_parent->trace_id() == parent.trace_id() && g_sampler_parent->span_id() == parent.span_id(), "sampler consulted with the effective parent");
  } else {
    VASSERT(sc.trace_id() == trace::TraceId(g_gen_tid) && g_gen_tid_calls == 1, "no valid parent / root: new trace id generated");
    VASSERT(g_sampler_calls == 1 && !g_sampler_parent->IsValid(), "sampler sees no parent for a root span");
  }
  VASSERT(sc.IsSampled() == sampled, "sampled flag equals the sampler's decision");
  VASSERT((sc.trace_flags().flags() & ~trace::TraceFlags::kAllW3CTraceContext1Flags) == 0, "only W3C level-1 flag bits are set");
  if (sampler_ts) VASSERT(sc.trace_state().get() == sts.get(), "trace state is the sampler's when it gives one");
  else if (has_parent) VASSERT(sc.trace_state().get() == parent.trace_state().get() && !sc.trace_state()->Empty(), "trace state is the parent's when the sampler gives none");
  VASSERT(!sc.IsRemote(), "a locally started span is not remote");
  if (!recording) {
    VASSERT(g_make == 0 && g_onstart == 0 && !span->IsRecording(), "dropped span: no recordable, no OnStart, not recording");
  } else {
    VASSERT(g_make == 1 && g_onstart == 1 && span->IsRecording(), "recorded span: one recordable, OnStart once");
    bool pid = true; for (int i = 0; i < 8; i++) pid = pid && g_parent_id[i] == (has_parent ? parent.span_id().Id()[i] : 0);
    VASSERT(g_identity && g_identity->span_id() == sc.span_id() && g_identity->trace_id() == sc.trace_id() && pid, "recordable identity: own ids and the parent's span id (zero for a root)");
    VASSERT(g_rec_flags == sc.trace_flags().flags(), "recordable carries the span's flags");
  }
  span->End();
  VASSERT(g_onend == (recording ? 1 : 0), "End exports a recorded span once and a dropped span never");
}
// ---- C04: operations before / after End on a recording span
ENTRY h_span_ops() {
  auto tracer = make_tracer(false);
  any_generator_ids();
  g_decision = (uint8_t)sdkt::Decision::RECORD_AND_SAMPLE; g_sampler_ts = nullptr;
  trace::StartSpanOptions opts; NoAttrs a; NoLinks l;
  nostd::shared_ptr<trace::Span> span = tracer->StartSpan("n", a, l, opts);
  int base = g_nlog;                       // calls made by the constructor
  int n_attr = 0, n_event = 0, n_status = 0, n_name = 0; bool ended = false; int64_t last_attr = 0; uint8_t last_status = 0; char last_name = 0;
  int order_ok = 1; int expect_log = base;
#ifndef NOPS
#define NOPS 4
#endif
  for (int step = 0; step < NOPS; step++) {
    uint8_t op = nondet_u8() % 5;
    if (op == 0) { int64_t v = (int64_t)nondet_u64(); span->SetAttribute("k", v); if (!ended) { if (expect_log < 24 && n_attr < 4) order_ok &= 1; n_attr++; last_attr = v; expect_log++; } }
    else if (op == 1) { span->AddEvent("e"); if (!ended) { n_event++; expect_log++; } }
    else if (op == 2) { uint8_t c = nondet_u8() % 3; span->SetStatus(trace::StatusCode(c), "d"); if (!ended) { n_status++; last_status = c; expect_log++; } }
    else if (op == 3) { char nm[1]; nm[0] = (char)('a' + nondet_u8() % 3); span->UpdateName(nostd::string_view(nm, 1)); if (!ended) { n_name++; last_name = nm[0]; expect_log++; } }
    else { span->End(); if (!ended) { ended = true; expect_log++; /* SetDuration */ } }
    VASSERT(g_nlog == expect_log, "every operation before End reaches the recordable exactly once; operations after End reach nothing");
    VASSERT(g_onend == (ended ? 1 : 0), "OnEnd is called exactly once, at the first End");
    VASSERT(span->IsRecording() == !ended, "span stops recording at End");
  }
  VASSERT(g_nattr == n_attr && (n_attr == 0 || n_attr > 4 || g_attr_val[n_attr - 1] == last_attr), "attribute writes arrive in order (last write is last)");
  VASSERT(n_status == 0 || g_status == last_status, "status is the last one set before End");
  VASSERT(n_name == 0 || g_name0 == last_name, "name is the last UpdateName before End");
#ifdef NO_DTOR_CHECK
  span->End();                                           // (shared_ptr disposers are not run in this build: End explicitly)
  VASSERT(g_onend == 1 && g_rec_live == 0, "a final End exports an open span once; the recordable is released exactly once");
#else
  span = nostd::shared_ptr<trace::Span>(nullptr);       // destroying the span ends it if still open
  VASSERT(g_onend == 1 && g_rec_live == 0, "destruction ends an open span once; the recordable is released exactly once");
#endif
}

// ---- C04: a span that is not recorded never reaches a recordable or the processor, whatever is called on it
ENTRY h_span_ops_dropped() {
  auto tracer = make_tracer(false);
  any_generator_ids();
  g_decision = (uint8_t)sdkt::Decision::DROP; g_sampler_ts = nullptr;
  trace::StartSpanOptions opts; NoAttrs a; NoLinks l;
  nostd::shared_ptr<trace::Span> span = tracer->StartSpan("n", a, l, opts);
  for (int step = 0; step < 3; step++) {
    uint8_t op = nondet_u8() % 5;
    if (op == 0) span->SetAttribute("k", (int64_t)nondet_u64());
    else if (op == 1) span->AddEvent("e");
    else if (op == 2) span->SetStatus(trace::StatusCode::kError, "d");
    else if (op == 3) span->UpdateName("x");
    else span->End();
  }
  span = nostd::shared_ptr<trace::Span>(nullptr);
  VASSERT(g_make == 0 && g_onstart == 0 && g_onend == 0 && g_nlog == 0, "a dropped span is never exported and no operation on it reaches a recordable");
}
