// C02 (aggregation) / C03 (simple processor): MultiSpanProcessor::ForceFlush/Shutdown over mock children, and
// SimpleSpanProcessor::OnEnd/Shutdown holding its spin lock across the exporter call.
#include "verif.h"
#include "opentelemetry/sdk/trace/multi_span_processor.h"
#include "opentelemetry/sdk/trace/simple_processor.h"
#include "sdk/src/trace/exporter.cc"
using namespace opentelemetry;
namespace sdkt = opentelemetry::sdk::trace;
#ifndef NCHILD
#define NCHILD 2
#endif
static bool g_ff_ret[3], g_sd_ret[3]; static int g_ff_calls[3], g_sd_calls[3];
struct Child : sdkt::SpanProcessor {
  int idx; explicit Child(int i) : idx(i) {}
  std::unique_ptr<sdkt::Recordable> MakeRecordable() noexcept override { return nullptr; }
  void OnStart(sdkt::Recordable &, const trace::SpanContext &) noexcept override {}
  void OnEnd(std::unique_ptr<sdkt::Recordable> &&) noexcept override {}
  bool ForceFlush(std::chrono::microseconds) noexcept override { g_ff_calls[idx]++; return g_ff_ret[idx]; }
  bool Shutdown(std::chrono::microseconds) noexcept override { g_sd_calls[idx]++; return g_sd_ret[idx]; }
};
ENTRY h_multi_aggregate() {
  std::vector<std::unique_ptr<sdkt::SpanProcessor>> none;
  auto *mp = new sdkt::MultiSpanProcessor(std::move(none));      // never destroyed (destructor would call Shutdown again)
  bool all_ff = true, all_sd = true;
  for (int i = 0; i < NCHILD; i++) { g_ff_ret[i] = nondet_bool(); g_sd_ret[i] = nondet_bool(); all_ff = all_ff && g_ff_ret[i]; all_sd = all_sd && g_sd_ret[i]; mp->AddProcessor(std::unique_ptr<sdkt::SpanProcessor>(new Child(i))); }
  bool ff = mp->ForceFlush(std::chrono::microseconds(1000));
  bool once = true; for (int i = 0; i < NCHILD; i++) once = once && g_ff_calls[i] == 1;
  VASSERT(once, "ForceFlush is forwarded to every child processor exactly once");
  VASSERT(!ff || all_ff, "ForceFlush reports true only if every child reported true");
  bool sd = mp->Shutdown(std::chrono::microseconds(1000));
  once = true; for (int i = 0; i < NCHILD; i++) once = once && g_sd_calls[i] == 1;
  VASSERT(once, "Shutdown is forwarded to every child processor exactly once");
  VASSERT(!sd || all_sd, "Shutdown reports true only if every child reported true");
}
// ---- simple processor
static sdkt::SimpleSpanProcessor *g_sp; static int g_exports, g_exp_shutdowns, g_exp_flushes; static bool g_lock_held_at_export = true, g_lock_free_at_shutdown = true, g_exp_flush_ret;
struct Rec0 : sdkt::Recordable {
  void SetIdentity(const trace::SpanContext &, trace::SpanId) noexcept override {}
  void SetAttribute(nostd::string_view, const common::AttributeValue &) noexcept override {}
  void AddEvent(nostd::string_view, common::SystemTimestamp, const common::KeyValueIterable &) noexcept override {}
  void AddLink(const trace::SpanContext &, const common::KeyValueIterable &) noexcept override {}
  void SetStatus(trace::StatusCode, nostd::string_view) noexcept override {}
  void SetName(nostd::string_view) noexcept override {}
  void SetSpanKind(trace::SpanKind) noexcept override {}
  void SetResource(const sdk::resource::Resource &) noexcept override {}
  void SetStartTime(common::SystemTimestamp) noexcept override {}
  void SetDuration(std::chrono::nanoseconds) noexcept override {}
  void SetInstrumentationScope(const sdk::instrumentationscope::InstrumentationScope &) noexcept override {}
};
struct Exp : sdkt::SpanExporter {
  std::unique_ptr<sdkt::Recordable> MakeRecordable() noexcept override { return std::unique_ptr<sdkt::Recordable>(new Rec0); }
  sdk::common::ExportResult Export(const nostd::span<std::unique_ptr<sdkt::Recordable>> &spans) noexcept override {
    g_exports++;
    if (!g_sp->lock_.flag_.load() || spans.size() != 1) g_lock_held_at_export = false;
    return nondet_bool() ? sdk::common::ExportResult::kSuccess : sdk::common::ExportResult::kFailure;
  }
  bool ForceFlush(std::chrono::microseconds) noexcept override { g_exp_flushes++; g_exp_flush_ret = nondet_bool(); return g_exp_flush_ret; }
  bool Shutdown(std::chrono::microseconds) noexcept override { g_exp_shutdowns++; if (g_sp && g_sp->lock_.flag_.load()) g_lock_free_at_shutdown = false; return nondet_bool(); }
};
// lifecycle: ForceFlush is the exporter's answer; destruction after an explicit Shutdown does not shut the exporter down again
ENTRY h_simple_lifecycle() {
  auto *sp = new sdkt::SimpleSpanProcessor(std::unique_ptr<sdkt::SpanExporter>(new Exp)); g_sp = sp;
  bool explicit_shutdown = nondet_bool();
  sp->OnEnd(std::unique_ptr<sdkt::Recordable>(new Rec0));
  bool ff = sp->ForceFlush(std::chrono::microseconds(10));
  VASSERT(g_exp_flushes == 1 && ff == g_exp_flush_ret, "simple processor: ForceFlush forwards to the exporter once and returns its answer");
  if (explicit_shutdown) sp->Shutdown(std::chrono::microseconds(0));
  g_sp = nullptr;
  delete sp;
  VASSERT(g_exp_shutdowns == 1, "simple processor: explicit Shutdown + destruction, or destruction alone, shut the exporter down exactly once");
  VASSERT(g_exports == 1 && g_lock_held_at_export && g_lock_free_at_shutdown, "simple processor: one Export under the lock; the lock is free when the exporter is shut down");
}
ENTRY h_simple_processor() {
  auto *sp = new sdkt::SimpleSpanProcessor(std::unique_ptr<sdkt::SpanExporter>(new Exp)); g_sp = sp;
  sp->OnEnd(std::unique_ptr<sdkt::Recordable>(new Rec0));
  VASSERT(g_exports == 1 && g_lock_held_at_export, "simple processor: Export is called with the processor's lock held, one record per call");
  VASSERT(!sp->lock_.flag_.load(), "simple processor: the lock is released when OnEnd returns (also when Export fails)");
  sp->OnEnd(std::unique_ptr<sdkt::Recordable>(new Rec0));
  VASSERT(g_exports == 2 && g_lock_held_at_export && !sp->lock_.flag_.load(), "simple processor: a second OnEnd can take the lock again");
  sp->Shutdown(std::chrono::microseconds(0)); sp->Shutdown(std::chrono::microseconds(0));
  VASSERT(g_exp_shutdowns == 1, "simple processor: the exporter is shut down exactly once");
}
