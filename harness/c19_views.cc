// C19 (views): ViewRegistry::MatchMeter / MatchInstrument with real MeterSelector / InstrumentSelector / predicates /
// InstrumentationScope. Strings are "" or one character over {a, b}; the instrument-name selector is the wildcard "*".
#include "verif.h"
#include "opentelemetry/sdk/metrics/view/view_registry.h"
#include "opentelemetry/sdk/instrumentationscope/instrumentation_scope.h"
using namespace opentelemetry;
namespace m = opentelemetry::sdk::metrics;
namespace is = opentelemetry::sdk::instrumentationscope;
// a string that is "" (k==0), "a" (1) or "b" (2): the length is concrete per k, the choice symbolic
// (one string object whose length is 0/1 and whose byte is a/b: no choice between temporaries)
struct Str { std::string s; Str(uint8_t k) { if (k) s.push_back(k == 1 ? 'a' : 'b'); } };
#define pick(k) (Str(k).s)
static bool exact_or_any(uint8_t sel, uint8_t v) { return sel == 0 || sel == v; }
ENTRY h_match_meter() {
  uint8_t sn = nondet_u8() % 3; uint8_t sv = nondet_u8() % 3; uint8_t ss = nondet_u8() % 3;
  uint8_t n = nondet_u8() % 3; uint8_t v = nondet_u8() % 3; uint8_t s = nondet_u8() % 3;
  m::MeterSelector sel(pick(sn), pick(sv), pick(ss));
  auto scope = is::InstrumentationScope::Create(pick(n), pick(v), pick(s));
  bool got = m::ViewRegistry::MatchMeter(&sel, *scope);
  bool want = exact_or_any(sn, n) && (v == 0 || exact_or_any(sv, v)) && (s == 0 || exact_or_any(ss, s));
  VASSERT(got == want, "a view's meter selector matches exactly the scopes whose name, version and schema URL it describes (empty selector field = any, empty scope version/schema = not compared)");
  scope.release();
}
ENTRY h_match_instrument() {
  uint8_t su = nondet_u8() % 3; uint8_t st = nondet_u8() % 3;
  uint8_t n = nondet_u8() % 3; uint8_t u = nondet_u8() % 3; uint8_t t = nondet_u8() % 3;
  static const m::InstrumentType kT[3] = {m::InstrumentType::kCounter, m::InstrumentType::kHistogram, m::InstrumentType::kObservableGauge};
  m::InstrumentSelector sel(kT[st], "*", pick(su));
  m::InstrumentDescriptor d{pick(n), "", pick(u), kT[t], m::InstrumentValueType::kLong};
  bool got = m::ViewRegistry::MatchInstrument(&sel, d);
  bool want = exact_or_any(su, u) && st == t;
  VASSERT(got == want, "a view's instrument selector (wildcard name) matches exactly the instruments of its type and unit");
}
