// C13: real sdk::logs::Logger::CreateLogRecord / EmitLogRecord (logger.cc) and ReadWriteLogRecord
// (read_write_log_record.cc) with a mock processor. Logger / LoggerContext state is placed directly (the resource and
// the scope are opaque storage whose addresses the record must carry).
#include "verif.h"
#include <mutex>
#include "opentelemetry/trace/default_span.h"
#include "opentelemetry/trace/scope.h"
#include "sdk/src/logs/logger.cc"
#include "sdk/src/logs/logger_config.cc"
#include "sdk/src/logs/read_write_log_record.cc"
#include "sdk/src/logs/logger_context.cc"
#include "sdk/src/logs/multi_log_record_processor.cc"
#include "sdk/src/logs/multi_recordable.cc"
using namespace opentelemetry;
namespace sdkl = opentelemetry::sdk::logs;
// SPAN_MODE: 0 no active span; 1 active span object (a non-recording DefaultSpan with symbolic context);
//            2 the runtime context holds a SpanContext alternative under the span key
#ifndef SPAN_MODE
#define SPAN_MODE 1
#endif
// fallbacks of ReadableLogRecord for records that were never given a resource / scope (readable_log_record.cc builds
// process-wide defaults through Resource::Create): not the subject here, and reaching them is reported
static bool g_default_used;
OPENTELEMETRY_BEGIN_NAMESPACE
namespace sdk { namespace logs {
nostd::string_view ReadableLogRecord::GetSeverityText() const noexcept { return ""; }
const sdk::instrumentationscope::InstrumentationScope &ReadableLogRecord::GetDefaultInstrumentationScope() noexcept { g_default_used = true; static sdk::instrumentationscope::InstrumentationScope *d = (sdk::instrumentationscope::InstrumentationScope *)__builtin_calloc(1, sizeof(sdk::instrumentationscope::InstrumentationScope)); return *d; }
const sdk::resource::Resource &ReadableLogRecord::GetDefaultResource() noexcept { g_default_used = true; static sdk::resource::Resource *d = (sdk::resource::Resource *)__builtin_calloc(1, sizeof(sdk::resource::Resource)); return *d; }
}}
OPENTELEMETRY_END_NAMESPACE
static int g_make, g_onemit; static sdkl::Recordable *g_made, *g_emitted;
struct Proc : sdkl::LogRecordProcessor {
  std::unique_ptr<sdkl::Recordable> MakeRecordable() noexcept override { g_make++; g_made = new sdkl::ReadWriteLogRecord; return std::unique_ptr<sdkl::Recordable>(g_made); }
  void OnEmit(std::unique_ptr<sdkl::Recordable> &&r) noexcept override { g_onemit++; g_emitted = r.release(); }   // kept alive for inspection
  bool ForceFlush(std::chrono::microseconds) noexcept override { return true; }
  bool Shutdown(std::chrono::microseconds) noexcept override { return true; }
};
static sdkl::LoggerContext *g_ctx; static sdk::instrumentationscope::InstrumentationScope *g_scope;
static trace::SpanContext any_context() {
  uint8_t tid[16], sid[8];
  for (int i = 0; i < 16; i++) tid[i] = nondet_u8();
  for (int i = 0; i < 8; i++) sid[i] = nondet_u8();
  uint8_t fl = nondet_u8(); bool remote = nondet_bool();
  return trace::SpanContext(trace::TraceId(tid), trace::SpanId(sid), trace::TraceFlags(fl), remote);
}
static bool all_zero(const uint8_t *p, int n) { bool z = true; for (int i = 0; i < n; i++) z = z && p[i] == 0; return z; }
struct LoggerBox { alignas(sdkl::Logger) unsigned char mem[sizeof(sdkl::Logger)]; };

ENTRY h_create_emit() {
#ifdef DISABLED
  const bool enabled = false;
#else
  const bool enabled = true;
#endif
  // Logger constructed member-wise: name, scope, context, config
  static LoggerBox box;
  sdkl::Logger *lg = reinterpret_cast<sdkl::Logger *>(box.mem);
  g_ctx = (sdkl::LoggerContext *)__builtin_calloc(1, sizeof(sdkl::LoggerContext));
  new (&g_ctx->processor_) std::unique_ptr<sdkl::LogRecordProcessor>(new Proc);
  g_scope = (sdk::instrumentationscope::InstrumentationScope *)__builtin_calloc(1, sizeof(sdk::instrumentationscope::InstrumentationScope));
  __builtin_memset(box.mem, 0, sizeof(box.mem));
  new (&lg->logger_name_) std::string("lg");
  new (&lg->instrumentation_scope_) std::unique_ptr<sdk::instrumentationscope::InstrumentationScope>(g_scope);
  new (&lg->context_) std::shared_ptr<sdkl::LoggerContext>(g_ctx, [](sdkl::LoggerContext *) {});
  new (&lg->logger_config_) sdkl::LoggerConfig(enabled ? sdkl::LoggerConfig::Enabled() : sdkl::LoggerConfig::Disabled());

  trace::SpanContext sc = any_context();
  uint8_t s_tid[16], s_sid[8]; sc.trace_id().CopyBytesTo(nostd::span<uint8_t, 16>(s_tid)); sc.span_id().CopyBytesTo(nostd::span<uint8_t, 8>(s_sid));
  uint8_t s_fl = sc.trace_flags().flags();
#if SPAN_MODE == 1
  nostd::shared_ptr<trace::Span> span(new trace::DefaultSpan(sc));
  auto token = context::RuntimeContext::Attach(context::RuntimeContext::GetCurrent().SetValue(trace::kSpanKey, span));
#elif SPAN_MODE == 2
  nostd::shared_ptr<trace::SpanContext> scp(new trace::SpanContext(sc));
  auto token = context::RuntimeContext::Attach(context::RuntimeContext::GetCurrent().SetValue(trace::kSpanKey, scp));
#endif
  // direct (non-virtual) calls of the SDK methods under test
  nostd::unique_ptr<opentelemetry::logs::LogRecord> rec = lg->sdkl::Logger::CreateLogRecord();
  if (!enabled) {
    VASSERT(g_make == 0, "disabled logger: no recordable is requested from the processor");
    lg->sdkl::Logger::EmitLogRecord(std::move(rec));
    VASSERT(g_onemit == 0, "disabled logger: nothing is emitted");
    rec.release();
    return;
  }
  VASSERT(g_make == 1 && rec.get() == static_cast<opentelemetry::logs::LogRecord *>(g_made), "enabled logger: the record is the processor's recordable");
  auto *rw = static_cast<sdkl::ReadWriteLogRecord *>(g_made);
  uint8_t r_tid[16], r_sid[8];
  rw->GetTraceId().CopyBytesTo(nostd::span<uint8_t, 16>(r_tid)); rw->GetSpanId().CopyBytesTo(nostd::span<uint8_t, 8>(r_sid));
#if SPAN_MODE == 0
  VASSERT(all_zero(r_tid, 16) && all_zero(r_sid, 8) && rw->GetTraceFlags().flags() == 0, "no active span: the record's trace id, span id and flags are all zero");
#else
  VASSERT(__builtin_memcmp(r_tid, s_tid, 16) == 0 && __builtin_memcmp(r_sid, s_sid, 8) == 0 && rw->GetTraceFlags().flags() == s_fl, "active span: the record carries that span's trace id, span id and trace flags");
#endif
  // explicit identity supplied afterwards wins (every value, zero included)
  bool expl = nondet_bool();
  uint8_t e_tid[16], e_sid[8]; uint8_t e_fl = 0;
  if (expl) {
    for (int i = 0; i < 16; i++) e_tid[i] = nondet_u8();
    for (int i = 0; i < 8; i++) e_sid[i] = nondet_u8();
    e_fl = nondet_u8();
    rec->SetTraceId(trace::TraceId(e_tid)); rec->SetSpanId(trace::SpanId(e_sid)); rec->SetTraceFlags(trace::TraceFlags(e_fl));
  }
  uint8_t sev = nondet_u8(); VASSUME(sev <= 24);
  uint64_t ts = nondet_u64(); VASSUME(ts < (1ULL << 62));
  int64_t body = (int64_t)nondet_u64(); int64_t evid = (int64_t)nondet_u64();
  rec->SetSeverity((opentelemetry::logs::Severity)sev);
  rec->SetTimestamp(common::SystemTimestamp(std::chrono::nanoseconds((int64_t)ts)));
  rec->SetBody(common::AttributeValue(body));
  rec->SetEventId(evid, "ev");
  lg->sdkl::Logger::EmitLogRecord(std::move(rec));
  VASSERT(g_onemit == 1 && g_emitted == g_made, "an emitted record reaches the processor exactly once");
  VASSERT((uint8_t)rw->GetSeverity() == sev && (uint64_t)rw->GetTimestamp().time_since_epoch().count() == ts && nostd::holds_alternative<int64_t>(rw->GetBody()) &&
              nostd::get<int64_t>(rw->GetBody()) == body && rw->GetEventId() == evid && rw->GetEventName() == "ev",
          "the record carries the severity, timestamp, body and event id/name that were supplied");
  VASSERT(&rw->GetResource() == &g_ctx->resource_ && &rw->GetInstrumentationScope() == g_scope, "the record references the provider's resource and the logger's instrumentation scope");
  VASSERT(!g_default_used, "an emitted record does not fall back to the process-wide default resource / scope");
  rw->GetTraceId().CopyBytesTo(nostd::span<uint8_t, 16>(r_tid)); rw->GetSpanId().CopyBytesTo(nostd::span<uint8_t, 8>(r_sid));
  if (expl) VASSERT(__builtin_memcmp(r_tid, e_tid, 16) == 0 && __builtin_memcmp(r_sid, e_sid, 8) == 0 && rw->GetTraceFlags().flags() == e_fl, "explicitly supplied trace identity wins over the active span's");
  // a null record is ignored
  lg->sdkl::Logger::EmitLogRecord(nostd::unique_ptr<opentelemetry::logs::LogRecord>());
  VASSERT(g_onemit == 1, "a null record is ignored");
}
