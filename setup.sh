#!/bin/sh
# Offline setup: nothing is downloaded or prebuilt; every check regenerates its encoding from /repo.
set -e
cd "$(dirname "$0")"
for t in clang++-14 cbmc g++ gcc python3 python3-vt; do command -v $t >/dev/null || { echo "missing tool: $t"; exit 1; }; done
python3 -m py_compile tools/*.py 2>/dev/null || true
python3-vt -c "import z3" 
mkdir -p evidence replays
echo setup ok
