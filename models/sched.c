/* yield / sleep: no effect on a single executing thread */
#include "verif_rt.h"
uint32_t sched_yield(void) { return 0; }
uint32_t nanosleep(void *req, void *rem) { return 0; }

