/* strtoull per C11 7.22.1.4 (base 10 only, asserted), strtof as nondeterministic value/end/errno,
 * errno as a plain int, strcasecmp. CBMC side only: native replay uses glibc. */
#include "verif_rt.h"
uint8_t nondet_model_u8(void); uint32_t nondet_model_u32(void);
static uint32_t verif_errno;
uint32_t *__errno_location(void) { return &verif_errno; }
static int sp(uint8_t c) { return c == ' ' || (c >= 9 && c <= 13); }
uint64_t strtoull(uint8_t *s, uint8_t **end, uint32_t base) {
  VERIF_CHECK(base == 10, "strtoull model: base 10 only");
  uint64_t i = 0; while (sp(s[i])) i++;
  int neg = 0;
  if (s[i] == '+') i++; else if (s[i] == '-') { neg = 1; i++; }
  uint64_t v = 0; int any = 0, ovf = 0;
  while (s[i] >= '0' && s[i] <= '9') {
    uint64_t d = s[i] - '0';
    if (v > 1844674407370955161ULL || (v == 1844674407370955161ULL && d > 5)) ovf = 1; else v = v * 10 + d;
    any = 1; i++;
  }
  if (!any) { if (end) *end = s; return 0; }
  if (end) *end = s + i;
  if (ovf) { verif_errno = 34; return 18446744073709551615ULL; }
  return neg ? (uint64_t)(0 - v) : v;
}
float strtof(uint8_t *s, uint8_t **end) {
  /* value, amount consumed and ERANGE are arbitrary: only the caller's decision logic is checked */
  uint64_t n = 0; while (s[n]) n++;
  uint32_t bits = nondet_model_u32(); uint8_t k = nondet_model_u8(); uint8_t er = nondet_model_u8();
  VERIF_ASSUME(k <= n);
  if (end) *end = s + k;
  if (er & 1) verif_errno = 34;
  float f = BITCAST(uint32_t, float, bits);
  return f;
}
static uint32_t lc(uint8_t c) { return (c >= 'A' && c <= 'Z') ? c + 32u : c; }
uint32_t strcasecmp(uint8_t *a, uint8_t *b) {
  uint64_t i = 0; while (a[i] && lc(a[i]) == lc(b[i])) i++;
  return lc(a[i]) - lc(b[i]);
}
