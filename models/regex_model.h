/* CBMC-side stand-in for std::regex_match on the pattern subset re2smt.py accepts:
 * a pattern is a sequence of (character class, min, max) items; tables are generated from the
 * regex literals in the real source on every run (regex_tables.c). */
#ifndef REGEX_MODEL_H
#define REGEX_MODEL_H
#include <stddef.h>
#ifndef RE_MAXN
#define RE_MAXN 8
#endif
struct re_item { const unsigned char *cls; unsigned lo, hi; };
_Bool re_match(const struct re_item *items, unsigned nitems, const unsigned char *p, size_t n);
extern const struct re_item reg_key_items[]; extern const unsigned reg_key_nitems;
extern const struct re_item reg_key_multitenant_items[]; extern const unsigned reg_key_multitenant_nitems;
extern const struct re_item reg_value_items[]; extern const unsigned reg_value_nitems;
extern const struct re_item instrument_name_items[]; extern const unsigned instrument_name_nitems;
extern const struct re_item instrument_unit_items[]; extern const unsigned instrument_unit_nitems;
#endif
