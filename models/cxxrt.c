/* C++ runtime symbols that are external to the IR (DESIGN.md 2.3). Allocation never fails (stated). */
#include "verif_rt.h"
void *malloc(size_t); void free(void *);
uint32_t verif_abort_expected = 0;   /* harnesses that expect termination set this */
uint32_t verif_abort_kind = 0;
static void verif_noreturn(int kind) {
  verif_abort_kind = kind;
  VERIF_CHECK(verif_abort_expected, "unexpected terminate/abort/throw reached");
  VERIF_ASSUME(0);
}
uint8_t *_Znwm(uint64_t n) { uint8_t *p = malloc(n); VERIF_ASSUME(p != 0); return p; }
#ifdef VERIF_NEW_ARRAY_MAX
/* operator new[] with a size that is symbolic at symex time would create a symbolic-size object (solver blow-up:
 * measured 14-25 GB on a 4-byte header). Opt-in per harness: every new[] gets VERIF_NEW_ARRAY_MAX bytes; a larger
 * request is a reported bound violation. Writes past the requested size but inside the slack are not detected. */
uint8_t *_Znam(uint64_t n) {
  if (n > VERIF_NEW_ARRAY_MAX) { VERIF_CHECK(0, "bound: operator new[] request larger than VERIF_NEW_ARRAY_MAX"); VERIF_ASSUME(0); }
  uint8_t *p = malloc(VERIF_NEW_ARRAY_MAX); VERIF_ASSUME(p != 0); return p;
}
#else
uint8_t *_Znam(uint64_t n) { uint8_t *p = malloc(n); VERIF_ASSUME(p != 0); return p; }
#endif
uint8_t *_ZnwmRKSt9nothrow_t(uint64_t n, void *nt) { uint8_t *p = malloc(n); VERIF_ASSUME(p != 0); return p; }
uint8_t *_ZnamRKSt9nothrow_t(uint64_t n, void *nt) { uint8_t *p = malloc(n); VERIF_ASSUME(p != 0); return p; }
#ifndef VERIF_CUSTOM_DELETE
void _ZdlPv(uint8_t *p) { free(p); }
void _ZdlPvm(uint8_t *p, uint64_t n) { free(p); }
#endif
void _ZdaPv(uint8_t *p) { free(p); }
void _ZdaPvm(uint8_t *p, uint64_t n) { free(p); }
uint32_t __cxa_guard_acquire(uint64_t *g) { return *(uint8_t *)g == 0; }
void __cxa_guard_release(uint64_t *g) { *(uint8_t *)g = 1; }
void __cxa_guard_abort(uint64_t *g) {}
uint32_t __cxa_atexit(void *f, uint8_t *a, uint8_t *d) { return 0; }
void __cxa_pure_virtual(void) { VERIF_CHECK(0, "pure virtual call"); VERIF_ASSUME(0); }
void _ZSt9terminatev(void) { verif_noreturn(1); }
void abort(void) { verif_noreturn(2); }
void _ZSt20__throw_length_errorPKc(uint8_t *m) { verif_noreturn(3); }
void _ZSt19__throw_logic_errorPKc(uint8_t *m) { verif_noreturn(4); }
void _ZSt24__throw_out_of_range_fmtPKcz(uint8_t *m, ...) { verif_noreturn(5); }
void _ZSt20__throw_out_of_rangePKc(uint8_t *m) { verif_noreturn(5); }
void _ZSt17__throw_bad_allocv(void) { verif_noreturn(6); }
void _ZSt28__throw_bad_array_new_lengthv(void) { verif_noreturn(6); }
void _ZSt25__throw_bad_function_callv(void) { verif_noreturn(7); }
void _ZSt16__throw_bad_castv(void) { verif_noreturn(8); }
void _ZSt20__throw_system_errori(uint32_t e) { verif_noreturn(9); }
void _ZSt24__throw_invalid_argumentPKc(uint8_t *m) { verif_noreturn(10); }
void _ZSt21__throw_bad_exceptionv(void) { verif_noreturn(11); }
void _ZSt21__throw_runtime_errorPKc(uint8_t *m) { verif_noreturn(12); }
void __assert_fail(uint8_t *a, uint8_t *f, uint32_t l, uint8_t *fn) { verif_noreturn(13); }
uint32_t __cxa_thread_atexit(void *f, uint8_t *a, uint8_t *d) { return 0; }   /* thread_local destructors never run inside a query */
