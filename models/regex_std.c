/* std::basic_regex<char>::_M_compile and std::__detail::__regex_algo_impl (the engine behind regex_match) replaced by
 * the table matcher of regex_model.c: _M_compile identifies the pattern by comparing its text with the literals
 * extracted from the real source (regex_tables.c: *_pattern / *_pattern_len) and remembers it per regex object;
 * __regex_algo_impl matches [first,last) against that pattern's items. Any other pattern is a reported error. */
#include "verif_rt.h"
#include "regex_model.h"
extern const unsigned char instrument_name_pattern[]; extern const unsigned instrument_name_pattern_len;
extern const unsigned char instrument_unit_pattern[]; extern const unsigned instrument_unit_pattern_len;
static void *rx_obj[4]; static uint32_t rx_tag[4]; static uint32_t rx_n;
static int same(const uint8_t *a, const uint8_t *b, uint64_t n, const unsigned char *lit, unsigned ln) {
  if ((uint64_t)(b - a) != ln) return 0;
  for (unsigned i = 0; i < ln; i++) if (a[i] != lit[i]) return 0;
  return 1;
}
void _ZNSt7__cxx1111basic_regexIcNS_12regex_traitsIcEEE10_M_compileEPKcS5_NSt15regex_constants18syntax_option_typeE(void *self, uint8_t *first, uint8_t *last, uint32_t flags) {
  uint32_t tag = 0;
  if (same(first, last, 0, instrument_name_pattern, instrument_name_pattern_len)) tag = 1;
  else if (same(first, last, 0, instrument_unit_pattern, instrument_unit_pattern_len)) tag = 2;
  VERIF_CHECK(tag != 0, "regex model: pattern is not one of the literals extracted from the source");
  VERIF_CHECK(rx_n < 4, "regex model: too many regex objects");
  rx_obj[rx_n] = self; rx_tag[rx_n] = tag; rx_n++;
}
_Bool _ZNSt8__detail17__regex_algo_implIPKcSaINSt7__cxx119sub_matchIS2_EEEcNS3_12regex_traitsIcEEEEbT_S9_RNS3_13match_resultsIS9_T0_EERKNS3_11basic_regexIT1_T2_EENSt15regex_constants15match_flag_typeENS_20_RegexExecutorPolicyEb(
    uint8_t *first, uint8_t *last, void *results, void *re, uint32_t flags, uint32_t policy, _Bool match_mode) {
  uint32_t tag = 0;
  for (uint32_t i = 0; i < 4; i++) if (i < rx_n && rx_obj[i] == re) tag = rx_tag[i];
  VERIF_CHECK(tag != 0 && match_mode, "regex model: full match on a registered regex");
  if (tag == 1) return re_match(instrument_name_items, instrument_name_nitems, first, (size_t)(last - first));
  return re_match(instrument_unit_items, instrument_unit_nitems, first, (size_t)(last - first));
}
void _ZNSt6localeC1Ev(void *l) {}
void _ZNSt6localeD1Ev(void *l) {}
void _ZNSt6localeC1ERKS_(void *l, void *o) {}
