/* sequential bodies of the atomic hooks (single executing thread, SC). */
#include "verif_rt.h"
#define AT_DEF(W) \
  uint##W##_t __at_load##W(uint##W##_t *p, int order) { return *p; } \
  void __at_store##W(uint##W##_t *p, uint##W##_t v, int order) { *p = v; } \
  uint##W##_t __at_xchg##W(uint##W##_t *p, uint##W##_t v, int order) { uint##W##_t o = *p; *p = v; return o; } \
  uint##W##_t __at_add##W(uint##W##_t *p, uint##W##_t v, int order) { uint##W##_t o = *p; *p = (uint##W##_t)(o + v); return o; } \
  uint##W##_t __at_sub##W(uint##W##_t *p, uint##W##_t v, int order) { uint##W##_t o = *p; *p = (uint##W##_t)(o - v); return o; } \
  uint##W##_t __at_and##W(uint##W##_t *p, uint##W##_t v, int order) { uint##W##_t o = *p; *p = o & v; return o; } \
  uint##W##_t __at_or##W(uint##W##_t *p, uint##W##_t v, int order) { uint##W##_t o = *p; *p = o | v; return o; } \
  uint##W##_t __at_xor##W(uint##W##_t *p, uint##W##_t v, int order) { uint##W##_t o = *p; *p = o ^ v; return o; } \
  _Bool __at_cas##W(uint##W##_t *p, uint##W##_t *expected, uint##W##_t desired, int so, int fo, int weak) { \
    if (*p == *expected) { *p = desired; return 1; } *expected = *p; return 0; }
AT_DEF(8) AT_DEF(16) AT_DEF(32) AT_DEF(64)
void __at_fence(int order) {}
void *__at_loadp(void **p, int order) { return *p; }
void __at_storep(void **p, void *v, int order) { *p = v; }
void *__at_xchgp(void **p, void *v, int order) { void *o = *p; *p = v; return o; }
_Bool __at_casp(void **p, void **expected, void *desired, int so, int fo, int weak) { if (*p == *expected) { *p = desired; return 1; } *expected = *p; return 0; }
