/* CBMC-side environment: every nondeterministic value flows through these wrappers so that
 * the counterexample trace lists them in program order (local variable verif_nd in nondet_*). */
#include "verif_rt.h"
uint8_t __VERIFIER_nondet_uchar(void); uint16_t __VERIFIER_nondet_ushort(void); uint32_t __VERIFIER_nondet_uint(void);
uint64_t __VERIFIER_nondet_ulong(void); double __VERIFIER_nondet_double(void); float __VERIFIER_nondet_float(void);
uint8_t nondet_u8(void) { uint8_t verif_nd = __VERIFIER_nondet_uchar(); return verif_nd; }
uint16_t nondet_u16(void) { uint16_t verif_nd = __VERIFIER_nondet_ushort(); return verif_nd; }
uint32_t nondet_u32(void) { uint32_t verif_nd = __VERIFIER_nondet_uint(); return verif_nd; }
uint64_t nondet_u64(void) { uint64_t verif_nd = __VERIFIER_nondet_ulong(); return verif_nd; }
double nondet_double(void) { double verif_nd = __VERIFIER_nondet_double(); return verif_nd; }
float nondet_float(void) { float verif_nd = __VERIFIER_nondet_float(); return verif_nd; }
_Bool nondet_bool(void) { uint8_t verif_nd = __VERIFIER_nondet_uchar(); __CPROVER_assume(verif_nd <= 1); return verif_nd; }
/* nondeterminism consumed by MODELS/abstractions (not by the harness): recorded with an 'm' type tag so
 * that native replay, where the real function runs instead of the model, skips these values */
uint8_t nondet_model_u8(void) { uint8_t verif_nd = __VERIFIER_nondet_uchar(); return verif_nd; }
uint32_t nondet_model_u32(void) { uint32_t verif_nd = __VERIFIER_nondet_uint(); return verif_nd; }
uint64_t nondet_model_u64(void) { uint64_t verif_nd = __VERIFIER_nondet_ulong(); return verif_nd; }
double nondet_model_double(void) { double verif_nd = __VERIFIER_nondet_double(); return verif_nd; }
