/* CalculateThreshold as an uninterpreted function (functional consistency over <= 4 calls) plus the two
 * end-point facts that query threshold_endpoints proves on the real code. Used only by the queries that
 * check the DECISION structure of ShouldSample; the arithmetic of T itself is checked by threshold_*. */
#include "verif_rt.h"
uint64_t nondet_model_u64(void);
static double uf_x[4]; static uint64_t uf_y[4]; static int uf_n;
uint64_t _ZN12_GLOBAL__N_118CalculateThresholdEd(double r) {
  for (int i = 0; i < 4; i++) if (i < uf_n && uf_x[i] == r) return uf_y[i];
  VERIF_CHECK(uf_n < 4, "bound: at most 4 distinct CalculateThreshold arguments per query");
  uint64_t y = nondet_model_u64();
  if (r <= 0.0) VERIF_ASSUME(y == 0);
  if (r >= 1.0) VERIF_ASSUME(y == 18446744073709551615ULL);
  uf_x[uf_n] = r; uf_y[uf_n] = y; uf_n++;
  return y;
}
