/* Out-of-line libstdc++ red-black tree support (libstdc++-v3/src/c++98/tree.cc, GCC 12) ported to C.
 * Node base layout: { _Rb_tree_color (int: 0 red, 1 black); parent; left; right }. The header node's parent is the
 * root, left the leftmost, right the rightmost node. Trusted base (listed in evidence.stubs). */
#include "verif_rt.h"
struct rbn { uint32_t color; struct rbn *parent, *left, *right; };
#define RED 0u
#define BLACK 1u
static struct rbn *rb_inc(struct rbn *x) {
  if (x->right != 0) { x = x->right; while (x->left != 0) x = x->left; }
  else { struct rbn *y = x->parent; while (x == y->right) { x = y; y = y->parent; } if (x->right != y) x = y; }
  return x;
}
static struct rbn *rb_dec(struct rbn *x) {
  if (x->color == RED && x->parent->parent == x) x = x->right;
  else if (x->left != 0) { struct rbn *y = x->left; while (y->right != 0) y = y->right; x = y; }
  else { struct rbn *y = x->parent; while (x == y->left) { x = y; y = y->parent; } x = y; }
  return x;
}
struct rbn *_ZSt18_Rb_tree_incrementPSt18_Rb_tree_node_base(struct rbn *x) { return rb_inc(x); }
struct rbn *_ZSt18_Rb_tree_incrementPKSt18_Rb_tree_node_base(struct rbn *x) { return rb_inc(x); }
struct rbn *_ZSt18_Rb_tree_decrementPSt18_Rb_tree_node_base(struct rbn *x) { return rb_dec(x); }
struct rbn *_ZSt18_Rb_tree_decrementPKSt18_Rb_tree_node_base(struct rbn *x) { return rb_dec(x); }
static void rot_left(struct rbn *x, struct rbn **root) {
  struct rbn *y = x->right;
  x->right = y->left;
  if (y->left != 0) y->left->parent = x;
  y->parent = x->parent;
  if (x == *root) *root = y;
  else if (x == x->parent->left) x->parent->left = y;
  else x->parent->right = y;
  y->left = x; x->parent = y;
}
static void rot_right(struct rbn *x, struct rbn **root) {
  struct rbn *y = x->left;
  x->left = y->right;
  if (y->right != 0) y->right->parent = x;
  y->parent = x->parent;
  if (x == *root) *root = y;
  else if (x == x->parent->right) x->parent->right = y;
  else x->parent->left = y;
  y->right = x; x->parent = y;
}
void _ZSt29_Rb_tree_insert_and_rebalancebPSt18_Rb_tree_node_baseS0_RS_(_Bool insert_left, struct rbn *x, struct rbn *p, struct rbn *header) {
  struct rbn **root = &header->parent;
  x->parent = p; x->left = 0; x->right = 0; x->color = RED;
  if (insert_left) {
    p->left = x;
    if (p == header) { header->parent = x; header->right = x; }
    else if (p == header->left) header->left = x;
  } else {
    p->right = x;
    if (p == header->right) header->right = x;
  }
  while (x != *root && x->parent->color == RED) {
    struct rbn *xpp = x->parent->parent;
    if (x->parent == xpp->left) {
      struct rbn *y = xpp->right;
      if (y && y->color == RED) { x->parent->color = BLACK; y->color = BLACK; xpp->color = RED; x = xpp; }
      else {
        if (x == x->parent->right) { x = x->parent; rot_left(x, root); }
        x->parent->color = BLACK; xpp->color = RED; rot_right(xpp, root);
      }
    } else {
      struct rbn *y = xpp->left;
      if (y && y->color == RED) { x->parent->color = BLACK; y->color = BLACK; xpp->color = RED; x = xpp; }
      else {
        if (x == x->parent->left) { x = x->parent; rot_right(x, root); }
        x->parent->color = BLACK; xpp->color = RED; rot_left(xpp, root);
      }
    }
  }
  (*root)->color = BLACK;
}
struct rbn *_ZSt28_Rb_tree_rebalance_for_erasePSt18_Rb_tree_node_baseRS_(struct rbn *z, struct rbn *header) {
  struct rbn **root = &header->parent, **leftmost = &header->left, **rightmost = &header->right;
  struct rbn *y = z, *x = 0, *x_parent = 0;
  if (y->left == 0) x = y->right;
  else if (y->right == 0) x = y->left;
  else { y = y->right; while (y->left != 0) y = y->left; x = y->right; }
  if (y != z) {
    z->left->parent = y; y->left = z->left;
    if (y != z->right) {
      x_parent = y->parent;
      if (x) x->parent = y->parent;
      y->parent->left = x;
      y->right = z->right; z->right->parent = y;
    } else x_parent = y;
    if (*root == z) *root = y;
    else if (z->parent->left == z) z->parent->left = y;
    else z->parent->right = y;
    y->parent = z->parent;
    { uint32_t t = y->color; y->color = z->color; z->color = t; }
    y = z;
  } else {
    x_parent = y->parent;
    if (x) x->parent = y->parent;
    if (*root == z) *root = x;
    else if (z->parent->left == z) z->parent->left = x;
    else z->parent->right = x;
    if (*leftmost == z) {
      if (z->right == 0) *leftmost = z->parent;
      else { struct rbn *t = x; while (t->left != 0) t = t->left; *leftmost = t; }
    }
    if (*rightmost == z) {
      if (z->left == 0) *rightmost = z->parent;
      else { struct rbn *t = x; while (t->right != 0) t = t->right; *rightmost = t; }
    }
  }
  if (y->color != RED) {
    while (x != *root && (x == 0 || x->color == BLACK)) {
      if (x == x_parent->left) {
        struct rbn *w = x_parent->right;
        if (w->color == RED) { w->color = BLACK; x_parent->color = RED; rot_left(x_parent, root); w = x_parent->right; }
        if ((w->left == 0 || w->left->color == BLACK) && (w->right == 0 || w->right->color == BLACK)) {
          w->color = RED; x = x_parent; x_parent = x_parent->parent;
        } else {
          if (w->right == 0 || w->right->color == BLACK) { w->left->color = BLACK; w->color = RED; rot_right(w, root); w = x_parent->right; }
          w->color = x_parent->color; x_parent->color = BLACK;
          if (w->right) w->right->color = BLACK;
          rot_left(x_parent, root);
          break;
        }
      } else {
        struct rbn *w = x_parent->left;
        if (w->color == RED) { w->color = BLACK; x_parent->color = RED; rot_right(x_parent, root); w = x_parent->left; }
        if ((w->right == 0 || w->right->color == BLACK) && (w->left == 0 || w->left->color == BLACK)) {
          w->color = RED; x = x_parent; x_parent = x_parent->parent;
        } else {
          if (w->left == 0 || w->left->color == BLACK) { w->right->color = BLACK; w->color = RED; rot_left(w, root); w = x_parent->left; }
          w->color = x_parent->color; x_parent->color = BLACK;
          if (w->left) w->left->color = BLACK;
          rot_right(x_parent, root);
          break;
        }
      }
    }
    if (x) x->color = BLACK;
  }
  return y;
}
