/* Thread-modular (rely/guarantee) environment for CircularBuffer / AtomicUniquePtr / SpinLockMutex
 * (DESIGN.md 2.8). The code under test runs ONCE; before each of its atomic operations the shared
 * cells are havocked subject to the rely of the executing role (interference by any number of other
 * threads, any history); at each of its own atomic writes the role's guarantee is asserted.
 * Tokens are opaque non-zero ids stored in the slots (never dereferenced); operator delete is a ghost
 * recorder (rg_deleted).  Shared cells: *rg_head, *rg_tail, rg_slots[0..cap).  Counters < RG_BOUND. */
#include "verif_rt.h"
uint64_t nondet_model_u64(void); uint8_t nondet_model_u8(void);
#ifndef RG_BOUND
#define RG_BOUND 200
#endif
#define RG_MAXCAP 5
/* producer: the Add() retry loop is cut (after checking its invariant) when iteration RG_PRODUCER_CUT starts.
 * 2 = induction over one iteration (default); N+1 = additionally run N consecutive failed attempts for real, so that
 * state the loop keeps in registers (an attempt counter, say) is exercised too */
#ifndef RG_PRODUCER_CUT
#define RG_PRODUCER_CUT 2
#endif
enum { ROLE_NONE = 0, ROLE_PRODUCER = 1, ROLE_CONSUMER = 2, ROLE_LOCKER = 3 };
uint32_t rg_role;              /* 0: hooks are plain sequential operations (state set-up / inspection) */
uint64_t *rg_head, *rg_tail, *rg_slots; uint64_t rg_cap, rg_max;
uint64_t rg_me;                /* producer: my token */
/* ghost */
uint32_t rg_iter;              /* producer: loop iterations started (loads of tail_) */
uint32_t rg_published;         /* producer: my successful head CAS count */
uint64_t rg_head_read, rg_tail_read, rg_tail_entry; uint32_t rg_have_entry;
uint64_t rg_pending_slot; uint32_t rg_pending;   /* producer: me sits unpublished in this slot */
uint64_t *rg_owner_ptr;        /* address of the caller's unique_ptr<Tok> pointer cell */
uint64_t rg_deleted[4]; uint32_t rg_ndeleted;
uint8_t *rg_lock_flag; uint32_t rg_lock_holder_is_me, rg_lock_held_by_other;

struct rg_state { uint64_t head, tail, slots[RG_MAXCAP]; };
static int st_published(const struct rg_state *s, uint64_t i) {   /* slot index i holds a published element */
  for (uint64_t k = 0; k < RG_MAXCAP; k++) { uint64_t a = s->tail + k; if (a < s->head && a % rg_cap == i) return 1; }
  return 0;
}
int rg_inv(const struct rg_state *s) {
  if (!(s->tail <= s->head && s->head - s->tail <= rg_max)) return 0;
  for (uint64_t i = 0; i < RG_MAXCAP; i++) if (i < rg_cap) {
    if (st_published(s, i) && s->slots[i] == 0) return 0;               /* published slots are non-null */
    for (uint64_t j = i + 1; j < RG_MAXCAP; j++) if (j < rg_cap)
      if (s->slots[i] != 0 && s->slots[i] == s->slots[j]) return 0;     /* a token sits in at most one slot */
  }
  return 1;
}
static void st_read(struct rg_state *s) { s->head = *rg_head; s->tail = *rg_tail; for (uint64_t i = 0; i < RG_MAXCAP; i++) s->slots[i] = i < rg_cap ? rg_slots[i] : 0; }
static void st_write(const struct rg_state *s) { *rg_head = s->head; *rg_tail = s->tail; for (uint64_t i = 0; i < RG_MAXCAP; i++) if (i < rg_cap) rg_slots[i] = s->slots[i]; }
int rg_invariant(void) { struct rg_state s; st_read(&s); return rg_inv(&s); }
/* value bound (keeps x % capacity cheap for the solver): assumed for pre-states and after interference, never asserted */
int rg_bounded(void) { return *rg_head < RG_BOUND - 8; }
static int in_published(uint64_t i) { struct rg_state s; st_read(&s); return st_published(&s, i); }
/* ---- rely relations (old -> new): what all OTHER threads together may do between two of my atomic operations */
/* producer holding token me (possibly pending, unpublished, in slot pend_slot) */
int rg_rely_producer(const struct rg_state *o, const struct rg_state *n, uint64_t me, int pending, uint64_t pend_slot) {
  if (!(n->head >= o->head && n->tail >= o->tail)) return 0;            /* counters only grow */
  for (uint64_t i = 0; i < RG_MAXCAP; i++) if (i < rg_cap) {
    if (o->slots[i] == me) { if (n->slots[i] != me) return 0; }          /* nobody removes my unpublished token */
    else if (n->slots[i] == me) return 0;                                /* nobody else owns my token */
  }
  if (!rg_inv(n)) return 0;
  if (pending && st_published(n, pend_slot)) return 0;                   /* head cannot pass my pending slot */
  return 1;
}
/* the single consumer; [lo,hi) = indices it has claimed (tail already advanced) but not yet emptied */
int rg_rely_consumer(const struct rg_state *o, const struct rg_state *n, uint64_t lo, uint64_t hi) {
  if (!(n->head >= o->head && n->tail == o->tail)) return 0;            /* producers only append; tail is mine */
  for (uint64_t i = 0; i < RG_MAXCAP; i++) if (i < rg_cap) {
    if (st_published(o, i) && n->slots[i] != o->slots[i]) return 0;      /* published elements are stable */
    for (uint64_t k = 0; k < RG_MAXCAP; k++) { uint64_t a = lo + k; if (a < hi && a % rg_cap == i && n->slots[i] != o->slots[i]) return 0; }
  }
  if (lo < hi && n->head > lo + rg_cap) return 0;   /* head cannot pass a claimed slot that I have not emptied yet (it is non-null) */
  return rg_inv(n);
}
static void havoc_state(struct rg_state *n) { n->head = nondet_model_u64(); n->tail = nondet_model_u64(); for (uint64_t i = 0; i < RG_MAXCAP; i++) n->slots[i] = nondet_model_u64(); }
uint64_t rg_cons_lo, rg_cons_hi;
uint32_t rg_at_tail_load;
static void interfere(void) {
#ifdef RG_RETRY_INTERFERE_BETWEEN_ATTEMPTS
  /* bounded-retry variant: from the second attempt on, other threads act only between attempts (before the load of tail_);
   * the first attempt keeps interference before every atomic operation. A restriction of the environment - stated in the query's shape. */
  if (rg_role == ROLE_PRODUCER && rg_iter >= 2 && !rg_at_tail_load) return;
#endif
  if (rg_role == ROLE_PRODUCER) {
    struct rg_state o, n; st_read(&o); havoc_state(&n);
    VERIF_ASSUME(rg_rely_producer(&o, &n, rg_me, rg_pending && !rg_published, rg_pending_slot));
    st_write(&n); VERIF_ASSUME(rg_bounded());
  } else if (rg_role == ROLE_CONSUMER) {
    struct rg_state o, n; st_read(&o); havoc_state(&n);
    VERIF_ASSUME(rg_rely_consumer(&o, &n, rg_cons_lo, rg_cons_hi));
    st_write(&n); VERIF_ASSUME(rg_bounded());
  } else if (rg_role == ROLE_LOCKER) {
    /* other threads may take the lock when it is free and release it when THEY hold it; nobody releases mine */
    if (!rg_lock_holder_is_me) {
      extern uint32_t rg_lock_quiet_after; extern uint32_t rg_lock_interferences;
      uint8_t f = nondet_model_u8() & 1;
      if (rg_lock_interferences >= rg_lock_quiet_after) f = 0;          /* bounded fairness: holder released, no new contender */
      rg_lock_interferences++;
      *rg_lock_flag = f; rg_lock_held_by_other = f;
    }
  }
}
uint32_t rg_lock_quiet_after = 1000, rg_lock_interferences;
/* ---- guarantee steps as abstract actions (used by the consistency queries: G_U => R_T, I inductive) */
/* returns 1 if action a by ANOTHER thread U is enabled in o and writes its result to n */
int rg_action(const struct rg_state *o, struct rg_state *n, uint32_t a, uint64_t tok, uint64_t idx, uint64_t cnt) {
  *n = *o;
  if (idx >= rg_cap) return 0;
  if (a == 0) { if (o->slots[idx] != 0 || tok == 0) return 0; for (uint64_t i = 0; i < RG_MAXCAP; i++) if (i < rg_cap && o->slots[i] == tok) return 0;
                if (st_published(o, idx)) return 0; n->slots[idx] = tok; return 1; }                       /* producer: empty slot -> its token */
  if (a == 1) { if (o->slots[o->head % rg_cap] == 0 || st_published(o, o->head % rg_cap) || o->head - o->tail >= rg_max) return 0;
                n->head = o->head + 1; return 1; }                                                         /* producer: publish the slot it filled at head */
  if (a == 2) { if (o->slots[idx] == 0 || st_published(o, idx)) return 0; n->slots[idx] = 0; return 1; }   /* producer undo / consumer clearing a claimed slot */
  if (a == 3) { if (cnt > o->head - o->tail) return 0; n->tail = o->tail + cnt; return 1; }                /* consumer: claim cnt published elements */
  return 0;
}
static int is_slot(uint64_t *p) { uintptr_t a = (uintptr_t)p, b = (uintptr_t)rg_slots; return rg_slots && a >= b && a < b + 8 * rg_cap; }

/* ---- hooks */
uint64_t __at_load64(uint64_t *p, int order) {
  if (rg_role) {
    rg_at_tail_load = (rg_role == ROLE_PRODUCER && p == rg_tail);
    interfere();
    rg_at_tail_load = 0;
    if (rg_role == ROLE_PRODUCER && p == rg_tail) {
      rg_iter++;
      if (rg_iter >= 2) {
        /* loop back-edge: the loop invariant of Add() must hold again, then the path is cut (induction) */
        VERIF_CHECK(*rg_owner_ptr == rg_me && !rg_pending && !rg_published, "Add retry: caller still owns the element and nothing of it is in the buffer");
        for (uint64_t i = 0; i < RG_MAXCAP; i++) if (i < rg_cap) VERIF_CHECK(rg_slots[i] != rg_me, "Add retry: no slot holds the element");
        if (rg_iter >= RG_PRODUCER_CUT) VERIF_ASSUME(0);
      }
      rg_tail_read = *p;
    }
    /* "consumed before the Add started": tail at the role's first atomic operation, whichever cell that operation reads */
    if (rg_role == ROLE_PRODUCER && !rg_have_entry) { rg_tail_entry = *rg_tail; rg_have_entry = 1; }
    if (rg_role == ROLE_PRODUCER && p == rg_head) rg_head_read = *p;
  }
  return *p;
}
void __at_store64(uint64_t *p, uint64_t v, int order) { if (rg_role) { interfere(); VERIF_CHECK(0, "unexpected plain atomic store by the role"); } *p = v; }
uint64_t __at_xchg64(uint64_t *p, uint64_t v, int order) {
  if (rg_role) interfere();
  uint64_t o = *p;
  if (rg_role == ROLE_PRODUCER) {
    /* the only exchange a producer performs is the undo of its own unpublished slot */
    VERIF_CHECK(is_slot(p) && rg_pending && (uint64_t)(p - rg_slots) == rg_pending_slot && !rg_published, "producer exchange touches only its own unpublished slot");
    VERIF_CHECK(o == rg_me && v == 0, "undo takes the element back and leaves the slot empty");
    rg_pending = 0;
  }
  if (rg_role == ROLE_CONSUMER) {
    extern void rg_consumer_take(uint64_t slot, uint64_t old, uint64_t v);
    VERIF_CHECK(is_slot(p), "consumer exchanges only slots");
    VERIF_CHECK(rg_cons_lo < rg_cons_hi && (uint64_t)(p - rg_slots) == rg_cons_lo % rg_cap, "consumer empties the oldest claimed slot (tail was advanced first)");
    VERIF_CHECK(o != 0 && v == 0, "consumer takes a non-null element and leaves the slot empty");
    rg_consumer_take((uint64_t)(p - rg_slots), o, v);
    rg_cons_lo++;
  }
  *p = v;
  if (rg_role) VERIF_CHECK(rg_invariant(), "invariant preserved by exchange");
  return o;
}
uint64_t __at_add64(uint64_t *p, uint64_t v, int order) {
  if (rg_role) interfere();
  uint64_t o = *p;
  if (rg_role == ROLE_CONSUMER) {
    VERIF_CHECK(p == rg_tail, "consumer adds only to tail");
    VERIF_CHECK(v <= *rg_head - o, "tail advances by at most the number of published elements");
    rg_cons_lo = o; rg_cons_hi = o + v;
  } else if (rg_role) VERIF_CHECK(0, "unexpected fetch_add by the role");
  *p = o + v;
  if (rg_role) VERIF_CHECK(rg_invariant(), "invariant preserved by tail advance");
  return o;
}
_Bool __at_cas64(uint64_t *p, uint64_t *expected, uint64_t desired, int so, int fo, int weak) {
  if (rg_role) interfere();
  if (rg_role && weak && (nondet_model_u8() & 1)) { *expected = *p; return 0; }     /* spurious failure of weak CAS */
  if (*p != *expected) { *expected = *p; return 0; }
  if (rg_role == ROLE_PRODUCER) {
    if (is_slot(p)) {
      VERIF_CHECK(*expected == 0 && !rg_pending && !rg_published, "producer writes only an empty slot, once");
      VERIF_CHECK(desired == rg_me, "producer writes its own element");
      VERIF_CHECK((uint64_t)(p - rg_slots) == rg_head_read % rg_cap, "producer targets slot head % capacity");
      rg_pending = 1; rg_pending_slot = (uint64_t)(p - rg_slots);
    } else {
      VERIF_CHECK(p == rg_head && desired == *expected + 1, "producer advances head by exactly one");
      VERIF_CHECK(rg_pending && rg_slots[*expected % rg_cap] == rg_me && rg_pending_slot == *expected % rg_cap, "head advances only over the slot holding my element");
      rg_published++; rg_pending = 0;
    }
  } else if (rg_role) VERIF_CHECK(0, "unexpected CAS by the role");
  *p = desired;
  if (rg_role) VERIF_CHECK(rg_invariant(), "invariant preserved by CAS");
  return 1;
}
/* 8-bit: spin lock flag */
uint8_t __at_load8(uint8_t *p, int order) { if (rg_role) interfere(); return *p; }
void __at_store8(uint8_t *p, uint8_t v, int order) {
  if (rg_role) interfere();
  if (rg_role == ROLE_LOCKER) { VERIF_CHECK(p == rg_lock_flag && v == 0 && rg_lock_holder_is_me, "only the holder clears the lock flag"); rg_lock_holder_is_me = 0; }
  *p = v;
}
uint8_t __at_xchg8(uint8_t *p, uint8_t v, int order) {
  if (rg_role) interfere();
  uint8_t o = *p;
  if (rg_role == ROLE_LOCKER) {
    VERIF_CHECK(p == rg_lock_flag && v == 1, "lock acquisition exchanges true into the flag");
    if (o == 0) { VERIF_CHECK(!rg_lock_held_by_other && !rg_lock_holder_is_me, "flag false means nobody holds the lock"); rg_lock_holder_is_me = 1; }
  }
  *p = v; return o;
}
#define AT_REST(W) \
  uint##W##_t __at_sub##W(uint##W##_t *p, uint##W##_t v, int order) { uint##W##_t o = *p; *p = (uint##W##_t)(o - v); return o; } \
  uint##W##_t __at_and##W(uint##W##_t *p, uint##W##_t v, int order) { uint##W##_t o = *p; *p = o & v; return o; } \
  uint##W##_t __at_or##W(uint##W##_t *p, uint##W##_t v, int order) { uint##W##_t o = *p; *p = o | v; return o; } \
  uint##W##_t __at_xor##W(uint##W##_t *p, uint##W##_t v, int order) { uint##W##_t o = *p; *p = o ^ v; return o; }
AT_REST(8) AT_REST(16) AT_REST(32) AT_REST(64)
uint8_t __at_add8(uint8_t *p, uint8_t v, int order) { uint8_t o = *p; *p = (uint8_t)(o + v); return o; }
_Bool __at_cas8(uint8_t *p, uint8_t *e, uint8_t d, int so, int fo, int weak) { if (*p == *e) { *p = d; return 1; } *e = *p; return 0; }
#define AT_PLAIN(W) \
  uint##W##_t __at_load##W(uint##W##_t *p, int order) { return *p; } \
  void __at_store##W(uint##W##_t *p, uint##W##_t v, int order) { *p = v; } \
  uint##W##_t __at_xchg##W(uint##W##_t *p, uint##W##_t v, int order) { uint##W##_t o = *p; *p = v; return o; } \
  uint##W##_t __at_add##W(uint##W##_t *p, uint##W##_t v, int order) { uint##W##_t o = *p; *p = (uint##W##_t)(o + v); return o; } \
  _Bool __at_cas##W(uint##W##_t *p, uint##W##_t *e, uint##W##_t d, int so, int fo, int weak) { if (*p == *e) { *p = d; return 1; } *e = *p; return 0; }
AT_PLAIN(16) AT_PLAIN(32)
void __at_fence(int order) {}
/* operator delete = ghost recorder (tokens are ids, not heap objects) */
void _ZdlPv(uint8_t *p) { if (p) { VERIF_CHECK(rg_ndeleted < 4, "bound: deletions"); if (rg_ndeleted < 4) rg_deleted[rg_ndeleted++] = (uint64_t)(uintptr_t)p; } }
void _ZdlPvm(uint8_t *p, uint64_t n) { _ZdlPv(p); }
uint32_t sched_yield(void) { if (rg_role) interfere(); return 0; }
uint32_t nanosleep(void *a, void *b) { if (rg_role) interfere(); return 0; }
/* pointer-cell atomics of the queue slots: same hooks (tokens are ids) */
void *__at_loadp(void **p, int order) { return (void *)(uintptr_t)__at_load64((uint64_t *)p, order); }
void __at_storep(void **p, void *v, int order) { __at_store64((uint64_t *)p, (uint64_t)(uintptr_t)v, order); }
void *__at_xchgp(void **p, void *v, int order) { return (void *)(uintptr_t)__at_xchg64((uint64_t *)p, (uint64_t)(uintptr_t)v, order); }
_Bool __at_casp(void **p, void **e, void *d, int so, int fo, int weak) { uint64_t ex = (uint64_t)(uintptr_t)*e; _Bool r = __at_cas64((uint64_t *)p, &ex, (uint64_t)(uintptr_t)d, so, fo, weak); *e = (void *)(uintptr_t)ex; return r; }
