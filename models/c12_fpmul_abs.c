/* Abstraction of  fl(4294967295.0 * x)  (the only double fmul in CalculateThreshold) by the IEEE-754
 * facts that correctly rounded multiplication by a positive finite constant is monotone and that
 * 0 <= x <= 1 implies 0 <= fl(c*x) <= c.  Any other fmul is computed exactly. */
#include "verif_rt.h"
double nondet_model_double(void);
static int n_calls; static double last_x, last_p;
double __fp_mul_hook(double a, double b) {
  if (a != 4294967295.0 && b != 4294967295.0) return a * b;
  double x = (a == 4294967295.0) ? b : a;
  double p = nondet_model_double();
  VERIF_ASSUME(p == p);
  if (x >= 0.0 && x <= 1.0) VERIF_ASSUME(p >= 0.0 && p <= 4294967295.0);
  if (x == 0.0) VERIF_ASSUME(p == 0.0);
  if (x == 1.0) VERIF_ASSUME(p == 4294967295.0);
  if (n_calls > 0) {
    if (x >= last_x) VERIF_ASSUME(p >= last_p);
    if (x <= last_x) VERIF_ASSUME(p <= last_p);      /* together: same argument, same product */
  }
  n_calls++; last_x = x; last_p = p;
  return p;
}
