/* std::__detail::_Prime_rehash_policy (libstdc++-v3/src/c++11/hashtable_c++0x.cc, GCC 12) for max_load_factor 1.0.
 * layout { float max_load_factor; size_t next_resize }. Bucket counts beyond the small prime table are a reported bound. */
#include "verif_rt.h"
struct prp { float mlf; uint64_t next_resize; };
struct pair_bool_sz { uint8_t first; uint64_t second; };
static const uint64_t verif_primes[] = {2, 3, 5, 7, 11, 13, 17, 19, 23, 29, 31, 37, 41, 43, 47, 53, 59, 61, 67, 71, 73, 79, 83, 89, 97};
uint64_t _ZNKSt8__detail20_Prime_rehash_policy11_M_next_bktEm(struct prp *p, uint64_t n) {
  static const uint8_t fast[] = {2, 2, 2, 3, 5, 5, 7, 7, 11, 11, 11, 11, 13, 13};
  VERIF_CHECK(p->mlf == 1.0f, "bound: unordered container max_load_factor is 1.0");
  if (n < sizeof(fast)) {
    if (n == 0) return 1;
    p->next_resize = fast[n];   /* floor(prime * 1.0) */
    return fast[n];
  }
  uint64_t r = 0;
  for (unsigned i = 0; i < sizeof(verif_primes) / sizeof(verif_primes[0]); i++) if (r == 0 && verif_primes[i] >= n) r = verif_primes[i];
  if (r == 0) { VERIF_CHECK(0, "bound: unordered container needs more than 97 buckets"); VERIF_ASSUME(0); }
  p->next_resize = r;
  return r;
}
struct pair_bool_sz _ZNKSt8__detail20_Prime_rehash_policy14_M_need_rehashEmmm(struct prp *p, uint64_t n_bkt, uint64_t n_elt, uint64_t n_ins) {
  struct pair_bool_sz r = {0, 0};
  VERIF_CHECK(p->mlf == 1.0f, "bound: unordered container max_load_factor is 1.0");
  if (n_elt + n_ins > p->next_resize) {
    uint64_t m = n_elt + n_ins; if (p->next_resize == 0 && m < 11) m = 11;
    uint64_t min_bkts = m;   /* / 1.0 */
    if (min_bkts >= n_bkt) {
      uint64_t want = min_bkts + 1; if (n_bkt * 2 > want) want = n_bkt * 2;
      r.first = 1; r.second = _ZNKSt8__detail20_Prime_rehash_policy11_M_next_bktEm(p, want);
      return r;
    }
    p->next_resize = n_bkt;
    return r;
  }
  return r;
}
