/* Overrides of TraceState::IsValidKeyRegEx / IsValidValueRegEx (trace_state.h:250-272):
 * same decision structure as the real bodies (key: reg_key OR reg_key_multitenant; value: reg_value),
 * with std::regex_match replaced by re_match over tables generated from the real literals. */
#include <stdint.h>
#include "regex_model.h"
_Bool _ZN13opentelemetry2v15trace10TraceState15IsValidKeyRegExENS0_5nostd11string_viewE(uint64_t n, uint8_t *p) {
  return re_match(reg_key_items, reg_key_nitems, p, n) || re_match(reg_key_multitenant_items, reg_key_multitenant_nitems, p, n);
}
_Bool _ZN13opentelemetry2v15trace10TraceState17IsValidValueRegExENS0_5nostd11string_viewE(uint64_t n, uint8_t *p) {
  return re_match(reg_value_items, reg_value_nitems, p, n);
}
