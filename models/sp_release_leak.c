/* std::_Sp_counted_base<_S_atomic>::_M_release() WITHOUT running the disposer: the use count is
 * decremented and the managed object is leaked. Used by queries whose subject is values, not lifetimes:
 * the type-erased disposer dispatch (every control-block type is a candidate at every release site)
 * otherwise makes CBMC explore destructor recursion that no real execution has. Effects ignored by
 * this stub: destructors of objects owned through std::shared_ptr (memory release only, for the types
 * in the harnesses that link it). Lifetime queries (C10, C20) link the real code instead. */
#include "verif_rt.h"
struct sp_cb { void *vptr; uint32_t use; uint32_t weak; };
uint64_t verif_sp_leaked;
void _ZNSt16_Sp_counted_baseILN9__gnu_cxx12_Lock_policyE2EE10_M_releaseEv(struct sp_cb *cb) {
  VERIF_CHECK(cb->use >= 1, "shared_ptr release on a dead control block");
  cb->use = cb->use - 1;
  if (cb->use == 0) verif_sp_leaked++;
}
