/* Out-of-line libstdc++ std::string members (GCC 12, __cxx11 ABI, SSO layout
 *   { char *p; size_t n; union { char buf[16]; size_t cap; } }  -- 32 bytes)
 * Semantics follow libstdc++-v3/include/bits/basic_string.tcc. Allocation never fails;
 * length_error (> max_size) is reported through the cxxrt noreturn path. */
#include "verif_rt.h"
void *malloc(size_t); void free(void *);
void _ZSt20__throw_length_errorPKc(uint8_t *m);
void _ZSt24__throw_out_of_range_fmtPKcz(uint8_t *m, ...);
struct vstr { uint8_t *p; uint64_t n; struct { uint8_t buf[16]; } u; };   /* SSO union as 16 plain bytes (as tools/ir2c.py declares it); the capacity overlays bytes 0..7 */
static uint64_t vs_getcap(struct vstr *s) { uint64_t c = 0; for (int i = 7; i >= 0; i--) c = (c << 8) | s->u.buf[i]; return c; }
static void vs_setcap(struct vstr *s, uint64_t c) { for (int i = 0; i < 8; i++) s->u.buf[i] = (uint8_t)(c >> (8 * i)); }
#define VSTR_MAX 0x3fffffffffffffffULL
static int vs_local(struct vstr *s) { return s->p == s->u.buf; }
static uint64_t vs_cap(struct vstr *s) { return vs_local(s) ? 15 : vs_getcap(s); }
static void vs_dispose(struct vstr *s) { if (!vs_local(s)) free(s->p); }
static void vs_setlen(struct vstr *s, uint64_t n) { s->n = n; s->p[n] = 0; }
static void vs_copy(uint8_t *d, const uint8_t *s, uint64_t n) { for (uint64_t i = 0; i < n; i++) d[i] = s[i]; }
static void vs_move(uint8_t *d, const uint8_t *s, uint64_t n) {
  if (d < s) for (uint64_t i = 0; i < n; i++) d[i] = s[i];
  else for (uint64_t i = n; i > 0; i--) d[i - 1] = s[i - 1];
}

/* pointer _M_create(size_type& capacity, size_type old_capacity) */
uint8_t *_ZNSt7__cxx1112basic_stringIcSt11char_traitsIcESaIcEE9_M_createERmm(struct vstr *s, uint64_t *cap, uint64_t old) {
  if (*cap > VSTR_MAX) _ZSt20__throw_length_errorPKc((uint8_t *)"basic_string::_M_create");
  if (*cap > old && *cap < 2 * old) { *cap = 2 * old; if (*cap > VSTR_MAX) *cap = VSTR_MAX; }
#ifdef VERIF_STR_NO_HEAP
  /* every std::string of the query fits the 15-byte SSO buffer: a request for a heap buffer is reported as a bound
   * violation and the path ends here, so that the (infeasible) reallocation branch of every push_back/append does not
   * turn the data pointer into a choice between the local buffer and a heap object */
  VERIF_CHECK(0, "bound: std::string grows beyond the 15-byte SSO buffer (VERIF_STR_NO_HEAP)"); VERIF_ASSUME(0);
  return s->u.buf;
#elif defined(VERIF_STR_HEAP_MAX)
  /* constant-size heap buffers: a malloc whose size is symbolic (a length that depends on input) makes every later
   * access to the object a symbolic-size array operation; requests above the constant are reported, never truncated */
  if (*cap > VERIF_STR_HEAP_MAX) { VERIF_CHECK(0, "bound: std::string heap buffer larger than VERIF_STR_HEAP_MAX"); VERIF_ASSUME(0); }
  uint8_t *r = malloc(VERIF_STR_HEAP_MAX + 1); VERIF_ASSUME(r != 0); return r;
#else
  uint8_t *r = malloc(*cap + 1); VERIF_ASSUME(r != 0); return r;
#endif
}
/* void _M_mutate(size_type pos, size_type len1, const char* s, size_type len2) */
void _ZNSt7__cxx1112basic_stringIcSt11char_traitsIcESaIcEE9_M_mutateEmmPKcm(struct vstr *s, uint64_t pos, uint64_t len1, uint8_t *str, uint64_t len2) {
  uint64_t how_much = s->n - pos - len1;
  uint64_t new_cap = s->n + len2 - len1;
  uint8_t *r = _ZNSt7__cxx1112basic_stringIcSt11char_traitsIcESaIcEE9_M_createERmm(s, &new_cap, vs_cap(s));
  if (pos) vs_copy(r, s->p, pos);
  if (str && len2) vs_copy(r + pos, str, len2);
  if (how_much) vs_copy(r + pos + len2, s->p + pos + len1, how_much);
  vs_dispose(s);
  s->p = r; vs_setcap(s, new_cap);
}
/* basic_string& _M_append(const char* s, size_type n) */
struct vstr *_ZNSt7__cxx1112basic_stringIcSt11char_traitsIcESaIcEE9_M_appendEPKcm(struct vstr *s, uint8_t *str, uint64_t n) {
  uint64_t len = s->n + n;
  if (len <= vs_cap(s)) { if (n) vs_copy(s->p + s->n, str, n); }
  else _ZNSt7__cxx1112basic_stringIcSt11char_traitsIcESaIcEE9_M_mutateEmmPKcm(s, s->n, 0, str, n);
  vs_setlen(s, len);
  return s;
}
/* void _M_assign(const basic_string& str) */
void _ZNSt7__cxx1112basic_stringIcSt11char_traitsIcESaIcEE9_M_assignERKS4_(struct vstr *s, struct vstr *o) {
  if (s == o) return;
  uint64_t rsize = o->n, cap = vs_cap(s);
  if (rsize > cap) {
    uint64_t nc = rsize;
    uint8_t *t = _ZNSt7__cxx1112basic_stringIcSt11char_traitsIcESaIcEE9_M_createERmm(s, &nc, cap);
    vs_dispose(s); s->p = t; vs_setcap(s, nc);
  }
  if (rsize) vs_copy(s->p, o->p, rsize);
  vs_setlen(s, rsize);
}
/* basic_string& _M_replace(size_type pos, size_type len1, const char* s, size_type len2) */
struct vstr *_ZNSt7__cxx1112basic_stringIcSt11char_traitsIcESaIcEE10_M_replaceEmmPKcm(struct vstr *s, uint64_t pos, uint64_t len1, uint8_t *str, uint64_t len2) {
  if (len2 > VSTR_MAX - (s->n - len1)) _ZSt20__throw_length_errorPKc((uint8_t *)"basic_string::_M_replace");
  uint64_t old = s->n, nsz = old + len2 - len1;
  /* take a private copy of the source first: covers the aliasing cases of the real implementation */
  uint8_t *tmp = malloc(len2 + 1); VERIF_ASSUME(tmp != 0);
  vs_copy(tmp, str, len2);
  if (nsz <= vs_cap(s)) {
    uint64_t how_much = old - pos - len1;
    if (how_much && len1 != len2) vs_move(s->p + pos + len2, s->p + pos + len1, how_much);
    if (len2) vs_copy(s->p + pos, tmp, len2);
  } else
    _ZNSt7__cxx1112basic_stringIcSt11char_traitsIcESaIcEE9_M_mutateEmmPKcm(s, pos, len1, tmp, len2);
  free(tmp);
  vs_setlen(s, nsz);
  return s;
}
/* basic_string& _M_replace_aux(size_type pos, size_type n1, size_type n2, char c) */
struct vstr *_ZNSt7__cxx1112basic_stringIcSt11char_traitsIcESaIcEE14_M_replace_auxEmmmc(struct vstr *s, uint64_t pos, uint64_t n1, uint64_t n2, uint8_t c) {
  if (n2 > VSTR_MAX - (s->n - n1)) _ZSt20__throw_length_errorPKc((uint8_t *)"basic_string::_M_replace_aux");
  uint64_t old = s->n, nsz = old + n2 - n1;
  if (nsz <= vs_cap(s)) {
    uint64_t how_much = old - pos - n1;
    if (how_much && n1 != n2) vs_move(s->p + pos + n2, s->p + pos + n1, how_much);
  } else
    _ZNSt7__cxx1112basic_stringIcSt11char_traitsIcESaIcEE9_M_mutateEmmPKcm(s, pos, n1, 0, n2);
  for (uint64_t i = 0; i < n2; i++) s->p[pos + i] = c;
  vs_setlen(s, nsz);
  return s;
}
/* void _M_erase(size_type pos, size_type n) */
void _ZNSt7__cxx1112basic_stringIcSt11char_traitsIcESaIcEE8_M_eraseEmm(struct vstr *s, uint64_t pos, uint64_t n) {
  uint64_t how_much = s->n - pos - n;
  if (how_much && n) vs_move(s->p + pos, s->p + pos + n, how_much);
  vs_setlen(s, s->n - n);
}
/* void _M_construct(size_type n, char c) */
void _ZNSt7__cxx1112basic_stringIcSt11char_traitsIcESaIcEE12_M_constructEmc(struct vstr *s, uint64_t n, uint8_t c) {
  if (n > 15) { uint64_t cap = n; s->p = _ZNSt7__cxx1112basic_stringIcSt11char_traitsIcESaIcEE9_M_createERmm(s, &cap, 0); vs_setcap(s, cap); }
  for (uint64_t i = 0; i < n; i++) s->p[i] = c;
  vs_setlen(s, n);
}
/* void reserve(size_type res) */
void _ZNSt7__cxx1112basic_stringIcSt11char_traitsIcESaIcEE7reserveEm(struct vstr *s, uint64_t res) {
  uint64_t cap = vs_cap(s);
  if (res <= cap) return;
  uint8_t *t = _ZNSt7__cxx1112basic_stringIcSt11char_traitsIcESaIcEE9_M_createERmm(s, &res, cap);
  vs_copy(t, s->p, s->n + 1);
  vs_dispose(s); s->p = t; vs_setcap(s, res);
}
/* ~basic_string() (out-of-line copy used when not inlined) */
void _ZNSt7__cxx1112basic_stringIcSt11char_traitsIcESaIcEED2Ev(struct vstr *s) { vs_dispose(s); }
void _ZNSt7__cxx1112basic_stringIcSt11char_traitsIcESaIcEED1Ev(struct vstr *s) { vs_dispose(s); }
/* int compare(const char*) const */
uint32_t _ZNKSt7__cxx1112basic_stringIcSt11char_traitsIcESaIcEE7compareEPKc(struct vstr *s, uint8_t *o) {
  uint64_t on = 0; while (o[on]) on++;
  uint64_t m = s->n < on ? s->n : on;
  for (uint64_t i = 0; i < m; i++) if (s->p[i] != o[i]) return s->p[i] < o[i] ? (uint32_t)-1 : 1;
  int64_t d = (int64_t)(s->n - on);
  if (d > 2147483647) return 2147483647; if (d < -2147483647 - 1) return (uint32_t)(-2147483647 - 1);
  return (uint32_t)(int32_t)d;
}
/* int compare(const basic_string&) const */
uint32_t _ZNKSt7__cxx1112basic_stringIcSt11char_traitsIcESaIcEE7compareERKS4_(struct vstr *s, struct vstr *o) {
  uint64_t m = s->n < o->n ? s->n : o->n;
  for (uint64_t i = 0; i < m; i++) if (s->p[i] != o->p[i]) return s->p[i] < o->p[i] ? (uint32_t)-1 : 1;
  int64_t d = (int64_t)(s->n - o->n);
  if (d > 2147483647) return 2147483647; if (d < -2147483647 - 1) return (uint32_t)(-2147483647 - 1);
  return (uint32_t)(int32_t)d;
}
/* size_type find(char c, size_type pos) const */
uint64_t _ZNKSt7__cxx1112basic_stringIcSt11char_traitsIcESaIcEE4findEcm(struct vstr *s, uint8_t c, uint64_t pos) {
  for (uint64_t i = pos; i < s->n; i++) if (s->p[i] == c) return i;
  return ~0ULL;
}
/* size_type find(const char* str, size_type pos, size_type n) const */
uint64_t _ZNKSt7__cxx1112basic_stringIcSt11char_traitsIcESaIcEE4findEPKcmm(struct vstr *s, uint8_t *str, uint64_t pos, uint64_t n) {
  if (n == 0) return pos <= s->n ? pos : ~0ULL;
  if (pos >= s->n) return ~0ULL;
  for (uint64_t i = pos; i + n <= s->n; i++) {
    uint64_t j = 0; while (j < n && s->p[i + j] == str[j]) j++;
    if (j == n) return i;
  }
  return ~0ULL;
}
/* size_type rfind(char c, size_type pos) const */
uint64_t _ZNKSt7__cxx1112basic_stringIcSt11char_traitsIcESaIcEE5rfindEcm(struct vstr *s, uint8_t c, uint64_t pos) {
  uint64_t sz = s->n;
  if (sz) { if (--sz > pos) sz = pos; for (++sz; sz-- > 0;) if (s->p[sz] == c) return sz; }
  return ~0ULL;
}
/* void swap(basic_string&) */
void _ZNSt7__cxx1112basic_stringIcSt11char_traitsIcESaIcEE4swapERS4_(struct vstr *a, struct vstr *b) {
  if (a == b) return;
  struct vstr t;
  /* materialise both as value triples, then re-seat local pointers */
  int al = vs_local(a), bl = vs_local(b);
  t = *a; *a = *b; *b = t;
  if (bl) a->p = a->u.buf;
  if (al) b->p = b->u.buf;
}
/* basic_string(const basic_string&) / basic_string(const char*, const allocator&) when emitted out of line */
void _ZNSt7__cxx1112basic_stringIcSt11char_traitsIcESaIcEEC2ERKS4_(struct vstr *s, struct vstr *o) {
  s->p = s->u.buf;
  if (o->n > 15) { uint64_t cap = o->n; s->p = _ZNSt7__cxx1112basic_stringIcSt11char_traitsIcESaIcEE9_M_createERmm(s, &cap, 0); vs_setcap(s, cap); }
  vs_copy(s->p, o->p, o->n);
  vs_setlen(s, o->n);
}
void _ZNSt7__cxx1112basic_stringIcSt11char_traitsIcESaIcEEC1ERKS4_(struct vstr *s, struct vstr *o) { _ZNSt7__cxx1112basic_stringIcSt11char_traitsIcESaIcEEC2ERKS4_(s, o); }
/* std::to_string(double): the text is irrelevant to every property here -> empty string (stated stub) */
void verif_string_init_empty(struct vstr *s) { s->p = s->u.buf; s->n = 0; s->u.buf[0] = 0; }
