/* Out-of-line libstdc++ pieces behind std::promise / std::future / std::call_once, for harnesses in which a started thread's body is
 * run synchronously at start (VERIF_THREAD_RUN_AT_START in thread_cv.c): the shared state is therefore either ready or never
 * becomes ready while the caller waits. CBMC side only. */
#include "verif_rt.h"
void (*_ZSt11__once_call)(void); uint8_t *_ZSt15__once_callable;            /* thread_local in libstdc++; single executing thread here */
void __once_proxy(void) { _ZSt11__once_call(); }
uint32_t pthread_once(uint32_t *flag, void (*fn)(void)) { if (*flag == 0) { *flag = 2; fn(); } return 0; }
void _ZNSt28__atomic_futex_unsigned_base19_M_futex_notify_allEPj(uint32_t *a) {}
/* bool _M_futex_wait_until_steady(unsigned* addr, unsigned val, bool has_timeout, seconds, nanoseconds): returns false on timeout.
 * Nobody else runs while this thread waits: if the word still holds val the wait times out */
_Bool _ZNSt28__atomic_futex_unsigned_base26_M_futex_wait_until_steadyEPjjbNSt6chrono8durationIlSt5ratioILl1ELl1EEEENS2_IlS3_ILl1ELl1000000000EEEE(void *self, uint32_t *addr, uint32_t val, _Bool has_timeout, int64_t s, int64_t ns) {
  return *addr != val;
}
_Bool _ZNSt28__atomic_futex_unsigned_base19_M_futex_wait_untilEPjjbNSt6chrono8durationIlSt5ratioILl1ELl1EEEENS2_IlS3_ILl1ELl1000000000EEEE(void *self, uint32_t *addr, uint32_t val, _Bool has_timeout, int64_t s, int64_t ns) {
  return *addr != val;
}
void _ZNSt13__future_base12_Result_baseC2Ev(void *r) {}      /* the derived _Result<T> constructor installs its own vptr */
void _ZNSt13__future_base12_Result_baseD2Ev(void *r) {}
_Bool _ZNSt19_Sp_make_shared_tag5_S_eqERKSt9type_info(void *ti) { return 0; }
void _ZNSt15__exception_ptr13exception_ptr10_M_releaseEv(void *p) {}
void _ZSt20__throw_future_errori(uint32_t e) { VERIF_CHECK(0, "unexpected std::future_error"); VERIF_ASSUME(0); }
void *_ZSt15future_categoryv(void) { static uint64_t cat; return &cat; }
void _ZNSt12future_errorD1Ev(void *e) {}
void _ZNSt12future_errorD2Ev(void *e) {}
void _ZNSt11logic_errorC2ERKNSt7__cxx1112basic_stringIcSt11char_traitsIcESaIcEEE(void *e, void *s) {}
void _ZNSt11logic_errorC1ERKNSt7__cxx1112basic_stringIcSt11char_traitsIcESaIcEEE(void *e, void *s) {}
