#include <stdint.h>
/* glibc flag read by libstdc++ refcounting: single executing thread in these harnesses */
uint8_t __libc_single_threaded = 1;
