/* std::_Hash_bytes: any deterministic function of the bytes is a valid stand-in (the properties are of
 * the form equal input => equal hash, decided above this function). A rotate-xor mix here. */
#include "verif_rt.h"
uint64_t _ZSt11_Hash_bytesPKvmm(uint8_t *p, uint64_t n, uint64_t seed) {
  uint64_t h = 1469598103934665603ULL ^ seed ^ n;
  for (uint64_t i = 0; i < n; i++) { h = (h << 5) | (h >> 59); h ^= p[i]; }   /* rotate-xor: no multiplier for the solver */
  return h;
}
