/* std::_Hash_bytes: any deterministic function of the bytes is a valid stand-in (the properties are of
 * the form equal input => equal hash, decided above this function). FNV-1a here. */
#include "verif_rt.h"
uint64_t _ZSt11_Hash_bytesPKvmm(uint8_t *p, uint64_t n, uint64_t seed) {
  uint64_t h = 1469598103934665603ULL ^ seed;
  for (uint64_t i = 0; i < n; i++) { h ^= p[i]; h *= 1099511628211ULL; }
  return h;
}
