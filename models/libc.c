/* libc pieces external to the IR. ctype: glibc C-locale tables, defined for -128..255 (glibc accepts
 * negative char values; strictly UB per ISO C -- recorded as an assumption). */
#include "verif_rt.h"
static int in_ctype_range(uint32_t c) { int32_t s = (int32_t)c; return s >= -128 && s <= 255; }
uint32_t isspace(uint32_t c) { VERIF_CHECK(in_ctype_range(c), "ctype argument in [-128,255]"); return c == ' ' || (c >= 9 && c <= 13); }
uint32_t isdigit(uint32_t c) { VERIF_CHECK(in_ctype_range(c), "ctype argument in [-128,255]"); return c >= '0' && c <= '9'; }
uint32_t islower(uint32_t c) { VERIF_CHECK(in_ctype_range(c), "ctype argument in [-128,255]"); return c >= 'a' && c <= 'z'; }
uint32_t isupper(uint32_t c) { VERIF_CHECK(in_ctype_range(c), "ctype argument in [-128,255]"); return c >= 'A' && c <= 'Z'; }
uint32_t isalpha(uint32_t c) { VERIF_CHECK(in_ctype_range(c), "ctype argument in [-128,255]"); return (c >= 'a' && c <= 'z') || (c >= 'A' && c <= 'Z'); }
uint32_t isalnum(uint32_t c) { return isalpha(c) || isdigit(c); }
uint32_t isprint(uint32_t c) { VERIF_CHECK(in_ctype_range(c), "ctype argument in [-128,255]"); return c >= 32 && c <= 126; }
uint32_t isxdigit(uint32_t c) { VERIF_CHECK(in_ctype_range(c), "ctype argument in [-128,255]"); return (c >= '0' && c <= '9') || (c >= 'a' && c <= 'f') || (c >= 'A' && c <= 'F'); }
uint32_t tolower(uint32_t c) { return (c >= 'A' && c <= 'Z') ? c + 32 : c; }
uint32_t toupper(uint32_t c) { return (c >= 'a' && c <= 'z') ? c - 32 : c; }
uint32_t bcmp(uint8_t *a, uint8_t *b, uint64_t n) { for (uint64_t i = 0; i < n; i++) if (a[i] != b[i]) return 1; return 0; }
uint32_t memcmp(uint8_t *a, uint8_t *b, uint64_t n) { for (uint64_t i = 0; i < n; i++) if (a[i] != b[i]) return a[i] < b[i] ? (uint32_t)-1 : 1; return 0; }
uint64_t strlen(uint8_t *s) { uint64_t n = 0; while (s[n]) n++; return n; }
uint8_t *memchr(uint8_t *s, uint32_t c, uint64_t n) { for (uint64_t i = 0; i < n; i++) if (s[i] == (uint8_t)c) return s + i; return 0; }
uint32_t strcmp(uint8_t *a, uint8_t *b) { uint64_t i = 0; while (a[i] && a[i] == b[i]) i++; return a[i] == b[i] ? 0 : (a[i] < b[i] ? (uint32_t)-1 : 1); }
uint32_t strncmp(uint8_t *a, uint8_t *b, uint64_t n) { for (uint64_t i = 0; i < n; i++) { if (a[i] != b[i]) return a[i] < b[i] ? (uint32_t)-1 : 1; if (!a[i]) return 0; } return 0; }
