#include "regex_model.h"
#include "verif_rt.h"
/* full match of p[0..n) against the item sequence; n <= RE_MAXN is a stated bound (asserted) */
_Bool re_match(const struct re_item *items, unsigned nitems, const unsigned char *p, size_t n) {
  VERIF_CHECK(n <= RE_MAXN, "bound: regex model string length <= RE_MAXN");
  if (n > RE_MAXN) return 0;
  _Bool reach[RE_MAXN + 1], nr[RE_MAXN + 1]; unsigned run[RE_MAXN + 1];
  for (unsigned j = 0; j <= RE_MAXN; j++) reach[j] = (j == 0);
  for (unsigned i = 0; i < nitems; i++) {
    run[0] = 0;
    for (unsigned j = 1; j <= RE_MAXN; j++) run[j] = (j <= n && items[i].cls[p[j <= n ? j - 1 : 0]]) ? run[j - 1] + 1 : 0;
    for (unsigned j = 0; j <= RE_MAXN; j++) {
      nr[j] = 0;
      for (unsigned k = 0; k <= j; k++)
        if (k >= items[i].lo && k <= items[i].hi && reach[j - k] && run[j] >= k) nr[j] = 1;
    }
    for (unsigned j = 0; j <= RE_MAXN; j++) reach[j] = nr[j];
  }
  return reach[n];
}
