/* getenv/errno environment shared by the CBMC encoding and the native replay build: the harness owns
 * the value buffer (verif_env_value, NULL = variable unset). */
#include <stddef.h>
char *verif_env_value = 0;
char *getenv(const char *name) { (void)name; return verif_env_value; }
