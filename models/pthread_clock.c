/* pthread mutex as an owner flag (single executing thread; re-locking a held mutex is a self-deadlock),
 * clocks as arbitrary non-decreasing instants. CBMC side only. */
#include "verif_rt.h"
uint64_t nondet_model_u64(void);
struct vmutex { uint32_t held; uint32_t pad[9]; };
uint32_t verif_mutex_lock_calls; static void *verif_mutex_locked[4];
uint32_t verif_mutex_was_locked(void *m) { for (int i = 0; i < 4; i++) if (verif_mutex_locked[i] == m) return 1; return 0; }
   /* ghost: which mutexes were locked (harness observes e.g. "producers take no mutex") */
uint32_t verif_thread_id;   /* which (simulated) thread is executing: the harness switches it when it lets "another thread" make a call */
uint32_t pthread_mutex_lock(struct vmutex *m) {
  if (m->held && m->pad[0] != verif_thread_id) VERIF_ASSUME(0);   /* held by another thread: this thread blocks; in the sequentialised schedule this branch ends here */
  VERIF_CHECK(!m->held, "pthread_mutex_lock on a mutex this thread already holds (self-deadlock)"); m->held = 1; m->pad[0] = verif_thread_id;
  if (verif_mutex_lock_calls < 4) verif_mutex_locked[verif_mutex_lock_calls] = m; verif_mutex_lock_calls++; return 0; }
uint32_t pthread_mutex_unlock(struct vmutex *m) { VERIF_CHECK(m->held, "pthread_mutex_unlock on a mutex that is not held"); m->held = 0; return 0; }
uint32_t pthread_mutex_trylock(struct vmutex *m) { if (m->held) return 16; m->held = 1; return 0; }
uint32_t __pthread_key_create(void *k, void *d) { return 0; }
static uint64_t clk_steady, clk_system;
uint64_t verif_clock_min_step;   /* harness may require the clocks to advance by at least this many ns per reading (bounded-progress queries) */
uint64_t _ZNSt6chrono3_V212steady_clock3nowEv(void) { uint64_t d = nondet_model_u64(); VERIF_ASSUME(d < (1ULL << 40) && d >= verif_clock_min_step); clk_steady += d; return clk_steady; }
uint64_t _ZNSt6chrono3_V212system_clock3nowEv(void) { uint64_t d = nondet_model_u64(); VERIF_ASSUME(d < (1ULL << 40) && d >= verif_clock_min_step); clk_system += d; return clk_system + 1700000000000000000ULL; }
