/* std::thread / std::condition_variable pieces external to the IR. The worker thread is never started; at the
 * points where the calling thread would block (condition wait, join) the harness-supplied hook runs what the
 * worker would do (sequentialised worker step). CBMC side only. */
#include "verif_rt.h"
uint8_t nondet_model_u8(void);
uint32_t verif_threads_started, verif_joined, verif_notify_all;
void verif_worker_step(uint32_t why);          /* harness: 1 = inside a condition wait, 2 = join */
struct vthread { uint64_t id; };
void _ZNSt6thread15_M_start_threadESt10unique_ptrINS_6_StateESt14default_deleteIS1_EEPFvvE(struct vthread *t, void **state, void *dep) {
  verif_threads_started++; t->id = 1000 + verif_threads_started;   /* joinable */
#ifdef VERIF_THREAD_RUN_AT_START
  { extern void verif_thread_run(void *state); verif_thread_run(*state); }   /* harness decides: run the body now (synchronously) or never */
#endif
}
void _ZNSt6thread4joinEv(struct vthread *t) {
  VERIF_CHECK(t->id != 0, "join on a non-joinable thread");
  verif_worker_step(2); verif_joined++; t->id = 0;
}
void _ZNSt6thread6detachEv(struct vthread *t) { t->id = 0; }
uint32_t _ZNSt6thread20hardware_concurrencyEv(void) { return 4; }
void _ZNSt18condition_variableC1Ev(void *cv) {}
void _ZNSt18condition_variableC2Ev(void *cv) {}
void _ZNSt18condition_variableD1Ev(void *cv) {}
void _ZNSt18condition_variableD2Ev(void *cv) {}
void _ZNSt18condition_variable10notify_allEv(void *cv) { verif_notify_all++; }
void _ZNSt18condition_variable10notify_oneEv(void *cv) { verif_notify_all++; }
struct vmutex { uint32_t held; uint32_t pad[9]; };
/* wait: release the mutex, let the worker run, re-acquire; returns 0 or ETIMEDOUT (110) */
uint32_t pthread_cond_clockwait(void *cv, struct vmutex *m, uint32_t clock, void *abstime) {
  VERIF_CHECK(m->held, "condition wait without holding the mutex"); m->held = 0;
  verif_worker_step(1);
  m->held = 1;
  return (nondet_model_u8() & 1) ? 110 : 0;
}
uint32_t pthread_cond_timedwait(void *cv, struct vmutex *m, void *abstime) { return pthread_cond_clockwait(cv, m, 0, abstime); }
uint32_t pthread_cond_wait(void *cv, struct vmutex *m) { VERIF_CHECK(m->held, "condition wait without holding the mutex"); m->held = 0; verif_worker_step(1); m->held = 1; return 0; }
void _ZNSt18condition_variable4waitERSt11unique_lockISt5mutexE(void *cv, void **lk) { pthread_cond_wait(cv, (struct vmutex *)lk[0]); }
void _ZNSt6thread6_StateD2Ev(void *s) {}   /* std::thread::_State::~_State(): out-of-line, empty in libstdc++ */
