/* libm pieces used by CalculateThreshold + std::to_string stub */
#include "verif_rt.h"
struct vstr; void verif_string_init_empty(struct vstr *s);
double trunc(double);
double modf(double x, double *ip) { double t = trunc(x); *ip = t; return x - t; }
double ldexp(double x, uint32_t e) { VERIF_CHECK(e == 32, "ldexp model only for exponent 32"); return x * 4294967296.0; }
void _ZNSt7__cxx119to_stringEd(struct vstr *ret, double v) { verif_string_init_empty(ret); }
