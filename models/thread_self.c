/* thread identity: one executing thread per query unless a harness switches verif_self_id */
#include "verif_rt.h"
unsigned long verif_self_id = 7;
unsigned long pthread_self(void) { return verif_self_id; }
